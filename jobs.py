"""Job tables: which CBMC queries decide which property, at which bound, in which tier."""
import copy

ALLRES = list(range(16))

# loops whose trip count does not depend on the resolution (bounds derived from the code, DESIGN A.3);
# every other loop is bounded by --unwind (res+2 or the per-job value). A too-small bound fails the
# unwinding assertion and the job is reported broken, never silently truncated.
FIXED = {
    "h3NeighborRotations.0": 7, "h3NeighborRotations.2": 7, "h3NeighborRotations.3": 7,
    "directionForNeighbor.0": 8, "_h3ToFaceIjk.0": 6, "_adjustOverageClassII.0": 7,
    "_adjustPentVertOverage.0": 6, "_unitIjkToDigit.0": 8, "_faceIjkToH3.1": 7, "_faceIjkToH3.2": 7,
    "vertexRotations.0": 14, "_baseCellToCCWrot60.0": 5, "_baseCellToCCWrot60.1": 5, "_baseCellToCCWrot60.2": 5,
    "_getBaseCellDirection.0": 8, "_faceIjkToVerts.0": 7, "_faceIjkPentToVerts.0": 6,
    "cellToVertexes.0": 7, "originToDirectedEdges.0": 7, "getPentagons.0": 123, "getRes0Cells.0": 123,
    "_geoToClosestFace.0": 21, "areNeighborCells.0": 8,
    # harness-side helper loops (constant bounds)
    "spec_valid_cell.0": 17, "spec_is_pentagon.0": 17, "spec_parent.0": 17, "spec_center_child.0": 17, "spec_size.0": 17, "firstNZpos.0": 17,
}


def J(name, src, defs=(), unwind=2, us=None, **kw):
    j = dict(name=name, src=src, defs=list(defs), unwind=unwind)
    u = dict(FIXED)
    if us:
        u.update(us)
    j["unwindset"] = {k: v for k, v in u.items() if kw.get("loops") is None or k.split(".")[0] in kw["loops"]}
    kw.pop("loops", None)
    j.update(kw)
    return j


def with_witness(j, **kw):
    w = copy.deepcopy(j)
    w["name"] = j["name"] + "_W"
    w["defs"] = list(j["defs"]) + ["-DWITNESS"]
    w["witness"] = True
    w.update(kw)
    return [j, w]


PROPS = {}
BUILDERS = {}


def prop(pid, **spec):
    PROPS[pid] = spec

    def deco(fn):
        BUILDERS[pid] = fn
        return fn
    return deco


def jobs_for(pid, tier):
    out = []
    for j in BUILDERS[pid](tier):
        t = j.pop("tier", "quick")
        if tier == "quick" and t != "quick":
            continue
        out.append(j)
    names = [j["name"] for j in out]
    assert len(names) == len(set(names)), "duplicate job names"
    return out


NBR_LOOPS = ["h3NeighborRotations", "directionForNeighbor"]

UP7_DEFS = {"coordijk": ["-D_upAp7=_upAp7_real", "-D_upAp7r=_upAp7r_real"]}
UP7_DEFS_CHK = {"coordijk": ["-D_upAp7=_upAp7_real", "-D_upAp7r=_upAp7r_real", "-D_upAp7Checked=_upAp7Checked_real", "-D_upAp7rChecked=_upAp7rChecked_real"]}


def up7_lemma(logb=10, checked=False):
    """L-UP7 lemma jobs for |i|,|j|,|k| <= 2^logb (the range the composite harnesses assert)."""
    js = []
    for r in (False, True):
        defs = ["-DB=(1<<%d)" % logb] + (["-DR"] if r else []) + (["-DCHECKED"] if checked else [])
        nm = "lemma_up7%s%s_b%d" % ("r" if r else "", "chk" if checked else "", logb)
        js += with_witness(J(nm, "L_up7.c", defs, unwind=3, est=20, bound="|i|,|j|,|k| <= 2^%d" % logb, core=True, timeout=1500))
    return js


# ------------------------------------------------------------------------------------------- C01
@prop("C01",
      functions=["isValidCell", "isPentagon", "_isBaseCellPentagon", "_isValidCell_pent", "_isValidCell_const", "_hasAny7UptoRes", "_hasAll7AfterRes", "_firstOneIndex"],
      bounds="H1: none (all 2^64 words, all 128 base-cell numbers). Closure clauses: see the jobs listed in samples.",
      outside="closure of outputs produced through floating point (latLngToCell end to end) is only covered at the lattice level",
      assumptions=["CBMC 6.11 C semantics for x86_64 (LP64), SAT back end sound", "goto-cc preprocesses with the same -D flags as the CMake build"],
      stubs=[])
def c01(tier):
    js = []
    js += with_witness(J("valid_allwords", "C01_valid.c", unwind=17, est=5, bound="all 2^64 words"))
    # closure of producers (same harnesses as the properties that own them, on a spread of resolutions)
    for r in (0, 1, 5, 10, 15):
        js.append(J("closure_nbr_r%d" % r, "C05_nbr.c", ["-DRES=%d" % r, "-DCLOSURE"], unwind=r + 2, est=10 + 5 * r, bound="neighbour step, all valid cells of res %d" % r))
        js.append(J("closure_parent_r%d" % r, "C04_tree.c", ["-DPARENT", "-DRES=%d" % r], unwind=17, est=5, bound="cellToParent, res %d" % r))
        js.append(J("closure_centerchild_r%d" % r, "C04_tree.c", ["-DSIZE", "-DRES=%d" % r], unwind=17, est=5, bound="cellToCenterChild, res %d" % r))
        js.append(J("closure_iter_c%d" % r, "C04_tree.c", ["-DITSTEP", "-DRES=%d" % r], unwind=18, est=10, bound="iterStepChild (=> cellToChildren, uncompactCells, polygon fill output), child res %d" % r))
        js.append(J("closure_edge_r%d" % r, "C10_edges.c", ["-DDEST", "-DRES=%d" % r], unwind=r + 2, est=20, mem=("M" if r >= 9 else "S"), tier=("quick" if r <= 5 else "thorough"), bound="directed-edge origin/destination, res %d" % r))
    for (p, c) in ((0, 2), (4, 5), (13, 15)):
        js.append(J("closure_childpos_%d_%d" % (p, c), "C13_childpos.c", ["-DFWD", "-DPRES=%d" % p, "-DCRES=%d" % c], unwind=17,
                    us={"_ipow.0": 6, "childPosToCell.0": c - p + 2, "childPosToCell.1": c - p + 2, "cellToChildPos.0": c - p + 2, "cellToChildPos.1": c - p + 2, "cellToParent.0": c + 2}, est=20, bound="childPosToCell (%d,%d)" % (p, c)))
    js.append(J("closure_pentagons", "C03_counts.c", ["-DPENTS", "-DRES=3"], unwind=17, us={"harness.0": 15, "harness.1": 13, "setH3Index.0": 17}, est=5, bound="getPentagons, all int res"))
    js.append(J("closure_res0", "C03_counts.c", ["-DRES0"], unwind=17, est=5, bound="getRes0Cells"))
    js += up7_lemma(10)
    for r, maxd in ((0, 3), (1, 8), (2, 15), (3, 50), (4, 110), (5, 300)):
        t = "quick" if r <= 3 else "thorough"
        j = J("closure_faceijk_r%d" % r, "C01_closure.c", ["-DRES=%d" % r, "-DMAXD=%d" % maxd, "-DUPB=(1<<10)"], unwind=r + 2, us={"_faceIjkToH3.0": r + 2}, unit_defs=UP7_DEFS, est=60 + 200 * r, mem="M", tier=t, timeout=3000,
              bound="_faceIjkToH3 on every ijk+ address with i+j+k <= %d of every face at res %d" % (maxd, r))
        js += with_witness(j, tier=t) if r == 1 else [j]
    return js


# ------------------------------------------------------------------------------------------- C05
@prop("C05",
      functions=["h3NeighborRotations", "directionForNeighbor", "_h3Rotate60ccw", "_h3Rotate60cw", "_h3RotatePent60ccw", "_h3LeadingNonZeroDigit", "_rotate60ccw", "_isBaseCellPentagon", "_baseCellIsCwOffset", "_isBaseCellPolarPentagon"],
      bounds={"quick": "neighbour step closure/distinctness/symmetry: all valid cells of resolutions 0-5 (closure and hexagon symmetry also 15; pentagon-neighbour symmetry 0-3) x 6 directions; k=1 through every disk entry point at res 0 (unsafe/ring variants also res 1), gridDisksUnsafe on every pair of origins at res 0, areNeighborCells on every pair of res-0 cells",
              "thorough": "all valid cells of all 16 resolutions x 6 directions; k=1 disks and areNeighborCells end to end at res 0-2"},
      outside="k>=2 beyond res 0, globe-wrapping disks, sufficiency of maxGridDiskSize at large k",
      assumptions=["cells are constructed as cell(r) + assume(isValidCell), justified by C01.H1"],
      stubs=[])
def c05(tier):
    js = []
    qres = [0, 1, 2, 3, 4, 5, 15]
    for r in ALLRES:
        for kind in ("CLOSURE", "DISTINCT", "SYMHEX", "SYMPENT"):
            t = "quick" if (r in qres and not (r == 15 and kind not in ("CLOSURE", "SYMHEX")) and not (kind == "SYMPENT" and r >= 4)) else "thorough"
            j = J("nbr_%s_r%d" % (kind.lower(), r), "C05_nbr.c", ["-DRES=%d" % r, "-D" + kind], unwind=r + 2,
                  est=20 + 10 * r, tier=t, mem=("M" if kind == "SYMPENT" and r >= 3 else "S"), bound="all valid cells of resolution %d x all directions" % r, timeout=1800)
            if kind == "SYMPENT" and r >= 9:
                j["mem"] = "L"; j["tier"] = "thorough"; j["core"] = False
            if r in (0, 2, 5) or tier == "thorough":
                js += with_witness(j, tier=j["tier"])
            else:
                js.append(j)
    DL = {"_gridDiskDistancesInternal.0": 8, "_gridDiskDistancesInternal.1": 7, "gridDiskDistancesUnsafe.0": 8, "gridRingUnsafe.0": 3, "gridRingUnsafe.1": 3, "gridRingUnsafe.2": 7,
          "memset.0": 9, "memset.1": 9, "memset.2": 2, "nb_of.0": 8}
    for k in range(8):
        DL["harness.%d" % k] = 10
    for r in (0, 1, 2):
        t = "quick" if r <= 1 else "thorough"
        for fn, nm in enumerate(("gridDisk", "gridDiskDistances", "gridDiskDistancesSafe", "gridDiskDistancesUnsafe", "gridRingUnsafe")):
            if t == "quick" and r == 1 and fn in (0, 1, 2):
                tt = "thorough"
            else:
                tt = t
            j = J("k1_%s_r%d" % (nm, r), "C05_disk.c", ["-DK1", "-DFN=%d" % fn, "-DRES=%d" % r], unwind=max(r + 2, 4), us=DL, est=300 + 300 * r, mem="M", tier=tt, timeout=3400, core=(r <= 1), bound="every cell of res %d, k=1" % r)
            js += with_witness(j, tier=tt) if (r == 0 and fn == 1) else [j]
        dl2 = dict(DL, **{"gridDisksUnsafe.0": 3})
        for k in range(8):
            dl2["harness.%d" % k] = 17
        js += with_witness(J("k1_gridDisksUnsafe_r%d" % r, "C05_disk.c", ["-DDISKS2", "-DRES=%d" % r], unwind=max(r + 2, 4), us=dl2, est=300 + 300 * r, mem="M", tier=("quick" if r == 0 else "thorough"), timeout=3400, core=(r == 0), witness_expect=["disks error", "disks ok"],
                             bound="every pair of origins of res %d, k=1" % r), tier=("quick" if r == 0 else "thorough"))[0:(2 if r == 0 else 1)]
        ta = "quick" if r == 0 else "thorough"
        j = J("areNeighborCells_r%d" % r, "C05_disk.c", ["-DARENBR", "-DRES=%d" % r], unwind=max(r + 2, 4), us=DL, est=400 + 400 * r, mem="M", tier=ta, timeout=3400, core=(r <= 1), bound="every pair of valid cells of res %d" % r)
        js += with_witness(j, tier=ta) if r == 0 else [j]
    # k = 2 end to end (gridDiskDistances vs two neighbour steps, res 0) was probed: 28 GB, no verdict - not registered
    for r in (0,):
        js.append(J("areNeighborCells_err_r%d" % r, "C05_disk.c", ["-DARENBR_ERR", "-DRES=%d" % r], unwind=max(r + 2, 4), us=DL, est=60, mem="M", bound="valid cell of res %d vs any 64-bit word" % r))
    return js


# ------------------------------------------------------------------------------------------- C20
@prop("C20",
      functions=["h3ToString", "stringToH3"],
      bounds="all 2^64 index values; buffer sizes 0..16 symbolic, 17 and 32 concrete (canaries beyond byte 17); parse: every string of <= 6 arbitrary bytes",
      outside="buffer sizes other than 0-17 and 32; strings longer than 6 bytes; libc itself (trusted, cross-checked by differential run of the S-FMT model on 1.1e6 seeded cases per run)",
      assumptions=["sprintf/snprintf/sscanf behave as C11 7.21.6 says for the conversions %[0][width][l|ll|j|z|h|hh]{x,X,u,d}: interpretive model harness/common/fmt.h"],
      stubs=["S-FMT: sprintf, snprintf, sscanf, __isoc99_sscanf (model interprets the format string passed by the real code)"])
def c20(tier):
    js = [J("fmt_model_vs_libc", "native/fmt_diff.c", native_test=True, est=3, core=False, bound="1.1e6 seeded value x format cases")]
    js += with_witness(J("small", "C20_string.c", ["-DSMALL"], unwind=25, est=3, bound="all h, sz in [0,16]"))
    js += with_witness(J("sz17", "C20_string.c", ["-DSZ=17"], unwind=25, est=8, bound="all h, sz=17"))
    js += [J("sz32", "C20_string.c", ["-DSZ=32"], unwind=34, est=12, bound="all h, sz=32")]
    js += with_witness(J("parse", "C20_string.c", ["-DPARSE"], unwind=25, est=12, bound="all strings of <= 6 bytes"))
    return js


# ------------------------------------------------------------------------------------------- C04
@prop("C04",
      functions=["cellToParent", "cellToChildrenSize", "cellToCenterChild", "_zeroIndexDigits", "_hasChildAtRes", "_ipow", "iterInitParent", "_iterInitParent", "iterStepChild", "_incrementResDigit", "_getResDigit", "cellToChildren", "isPentagon"],
      bounds={"quick": "cellToParent/cellToChildrenSize/cellToCenterChild: all valid cells of all 16 resolutions x every int resolution argument; iterator induction step: all valid children of resolutions 0-15 (quick: 0-8,15) x every parent resolution; cellToChildren end to end: depth 0-2 at res 0,5,13",
              "thorough": "same with the iterator step at all 16 child resolutions and cellToChildren depth 0-2 at every resolution"},
      outside="coincidence of the centre child's centre point with the parent's in lat/lng (trig); lattice-level coincidence is C03's FaceIJK check",
      assumptions=["iterator representation invariant Inv (DESIGN C04.H3) is established by iterInitParent (proved) and preserved by iterStepChild (proved); a refactoring of IterCellsChildren's private fields needs the invariant restated"],
      stubs=[])
def c04(tier):
    js = []
    for r in ALLRES:
        js.append(J("parent_r%d" % r, "C04_tree.c", ["-DPARENT", "-DRES=%d" % r], unwind=17, est=5, bound="all valid cells of res %d x all int parentRes" % r))
        js.append(J("size_r%d" % r, "C04_tree.c", ["-DSIZE", "-DRES=%d" % r], unwind=17, est=8, bound="all valid cells of res %d x all int childRes" % r))
        js.append(J("itinit_r%d" % r, "C04_tree.c", ["-DITINIT", "-DRES=%d" % r], unwind=17, est=5, bound="all valid parents of res %d x all int childRes" % r))
        t = "quick" if r <= 8 or r == 15 else "thorough"
        js.append(J("itstep_c%d" % r, "C04_tree.c", ["-DITSTEP", "-DRES=%d" % r], unwind=18, est=10 + 3 * r, tier=t, bound="any iterator state satisfying Inv at child res %d, any parent res" % r))
    for r in (0, 7, 15):
        js += with_witness(J("parent_r%d" % r, "C04_tree.c", ["-DPARENT", "-DRES=%d" % r], unwind=17, est=5))[1:]
        js += with_witness(J("size_r%d" % r, "C04_tree.c", ["-DSIZE", "-DRES=%d" % r], unwind=17, est=5))[1:]
        js += with_witness(J("itstep_c%d" % r, "C04_tree.c", ["-DITSTEP", "-DRES=%d" % r], unwind=18, est=10))[1:]
    js += with_witness(J("itinit_r3", "C04_tree.c", ["-DITINIT", "-DRES=3"], unwind=17, est=5))[1:]
    for r in ALLRES:
        for n in (0, 1, 2):
            if r + n > 15:
                continue
            t = "quick" if r in (0, 5, 13) and n < 2 else "thorough"
            if n == 2 and r not in (0, 5, 13):
                continue
            j = J("children_r%d_n%d" % (r, n), "C04_tree.c", ["-DCHILDREN", "-DRES=%d" % r, "-DN=%d" % n], unwind=52, us={"iterStepChild.0": n + 3, "cellToChildren.0": 7 ** n + 2, "_ipow.0": 6}, est=30, tier=t, mem=("M" if n == 2 else "S"),
                  bound="all valid cells of res %d, child depth %d" % (r, n))
            js.append(j)
    for r in (0, 1, 2):
        t = "quick" if r == 0 else "thorough"
        j = J("lattice_r%d" % r, "C04_tree.c", ["-DLATTICE", "-DRES=%d" % r, "-DUPB=(1<<10)"], unwind=r + 3, unit_defs=UP7_DEFS, est=100 + 200 * r, mem="M", tier=t, timeout=3000, core=False, bound="all valid cells of res %d and their centre child" % r)
        js += with_witness(j, tier=t) if r == 0 else [j]
    js += with_witness(J("children_r5_n1", "C04_tree.c", ["-DCHILDREN", "-DRES=5", "-DN=1"], unwind=52, us={"iterStepChild.0": 4, "cellToChildren.0": 9, "_ipow.0": 6}, est=30))[1:]
    return js


# ------------------------------------------------------------------------------------------- C13
@prop("C13",
      functions=["cellToChildPos", "childPosToCell", "validateChildPos", "cellToChildrenSize", "cellToParent", "_ipow", "isPentagon", "iterStepChild"],
      bounds={"quick": "per (parentRes, childRes) pair with childRes-parentRes <= 2 (45 pairs): all valid parents x all int64 positions (FWD), all valid children (BWD, ORDER); error codes: all int resolutions; pentagon parents at the deep pairs (0,12) and (3,15) (FWD)",
              "thorough": "FWD: all 136 (parentRes, childRes) pairs; BWD: depth <= 8; ORDER: depth <= 6 (calibrated up to depth 6 / 5: 30-60 s; depth >= 12 gave no verdict in 3000 s; depths in between are not run); pairs whose query exceeds the cap are listed as undecided"},
      outside="pairs reported undecided (deep 7^k division chains)",
      assumptions=["iterator invariant of C04 for the ORDER clause"],
      stubs=[])
def c13(tier):
    js = []
    for p in ALLRES:
        for c in range(p, 16):
            dd = c - p
            t = "quick" if dd <= 2 else "thorough"
            us = {"_ipow.0": 6, "childPosToCell.0": dd + 2, "childPosToCell.1": dd + 2, "cellToChildPos.0": dd + 2, "cellToChildPos.1": dd + 2,
                  "iterStepChild.0": dd + 3, "cellToParent.0": c + 2, "harness.0": 17, "spec_parent.0": 17, "spec_size.0": 17, "firstNZpos.0": 17, "spec_valid_cell.0": 17, "spec_is_pentagon.0": 17}
            for mode in ("FWD", "BWD", "ORDER"):
                if (mode == "BWD" and dd > 8) or (mode == "ORDER" and dd > 6):
                    continue   # probed: no verdict within 3000 s (deep 7^k division chains); FWD covers these pairs
                j = J("%s_%d_%d" % (mode.lower(), p, c), "C13_childpos.c", ["-D" + mode, "-DPRES=%d" % p, "-DCRES=%d" % c], unwind=17, us=us,
                      est=10 + 40 * dd, tier=t, timeout=3000 if tier == "thorough" else 900, sat="cadical",
                      bound="parentRes=%d childRes=%d" % (p, c), core=(dd <= 3))
                if (p, c) in ((0, 1), (5, 7), (14, 15)):
                    js += with_witness(j, tier=t)
                else:
                    js.append(j)
    # deep pairs restricted to pentagon parents (where the offsets differ from plain base-7 arithmetic)
    for (p, c, t) in ((0, 12, "quick"), (0, 15, "thorough"), (3, 15, "quick"), (1, 12, "thorough"), (2, 14, "thorough"), (0, 9, "thorough")):
        dd = c - p
        us = {"_ipow.0": 6, "childPosToCell.0": dd + 2, "childPosToCell.1": dd + 2, "cellToChildPos.0": dd + 2, "cellToChildPos.1": dd + 2, "cellToParent.0": c + 2}
        for mode in ("FWD", "BWD"):
            if mode == "BWD" and (p, c) == (0, 15):
                continue   # no verdict in 1500 s
            js.append(J("%spent_%d_%d" % (mode.lower(), p, c), "C13_childpos.c", ["-D" + mode, "-DPENTONLY", "-DPRES=%d" % p, "-DCRES=%d" % c], unwind=17, us=us, est=300, tier=(t if mode == "FWD" else "thorough"), timeout=3000, core=False, mem="M",
                        bound="pentagon parents only, parentRes=%d childRes=%d" % (p, c)))
    for p in (0, 3, 9, 15):
        j = J("err_%d" % p, "C13_childpos.c", ["-DERR", "-DPRES=%d" % p], unwind=17, us={"_ipow.0": 6}, est=20, bound="all int resolutions and positions, parents of res %d" % p)
        js += with_witness(j) if p > 0 else [j]   # at parent res 0 no in-range child resolution is coarser: the mismatch branch does not exist
    return js


# ------------------------------------------------------------------------------------------- C10
@prop("C10",
      functions=["isValidDirectedEdge", "getDirectedEdgeOrigin", "getDirectedEdgeDestination", "directedEdgeToCells", "cellsToDirectedEdge", "directionForNeighbor", "originToDirectedEdges", "h3NeighborRotations", "edgeLengthKm", "edgeLengthM"],
      bounds={"quick": "isValidDirectedEdge and wrong-mode rejection: all 2^64 words; origin/destination decode: all valid cells of res 0-6 x 6 directions; cellsToDirectedEdge on neighbours: res 0-2; arbitrary 64-bit destination (E_NOT_NEIGHBORS): res 0-1; originToDirectedEdges: all 16 resolutions; unit scaling: all doubles x all error codes",
              "thorough": "decode: all 16 resolutions; cellsToDirectedEdge: res 0-8,15; arbitrary destination: res 0-3"},
      outside="directedEdgeToBoundary coordinates and edgeLengthRads itself (trig); shared-boundary coincidence is C08's lattice check",
      assumptions=["unit-scaling glue: edgeLengthRads replaced by an arbitrary (value, code) stub"],
      stubs=["edgeLengthRads (only in the scaling glue job)"])
def c10(tier):
    js = []
    js += with_witness(J("valid_allwords", "C10_edges.c", ["-DVALID"], unwind=17, est=5, bound="all 2^64 words"))
    js += with_witness(J("mode_allwords", "C10_edges.c", ["-DMODE"], unwind=17, est=5, bound="all 2^64 words with mode != 2"))
    js += with_witness(J("scale_edge", "scale_glue.c", [], unwind=3, est=5, stubs={"latLng": ["edgeLengthRads"]}, bound="all doubles, all error codes"))
    BST = {"h3Index": ["isPentagon", "_h3ToFaceIjk"], "faceijk": ["_faceIjkPentToCellBoundary", "_faceIjkToCellBoundary"], "vertex": ["vertexNumForDirection"]}
    js += with_witness(J("glue_edgeBoundary", "C10_boundary_glue.c", [], unwind=14, est=10, stubs=BST, witness_expect=["invalid direction", "edge boundary"], bound="any edge word, any start vertex, any distortion pattern"))
    js += with_witness(J("sum_edge", "sum_glue.c", ["-DEDGE"], unwind=12, us={"edgeLengthRads.0": 4}, est=20, stubs={"directedEdge": ["directedEdgeToBoundary"], "latLng": ["greatCircleDistanceRads"]}, bound="edge boundaries of 2 or 3 points, segment lengths k*2^-20, any error"))
    for r in ALLRES:
        js.append(J("origins_r%d" % r, "C10_edges.c", ["-DORIGINS", "-DRES=%d" % r], unwind=17, est=5, bound="all valid cells of res %d" % r))
        t = "quick" if r <= 6 else "thorough"
        js.append(J("dest_r%d" % r, "C10_edges.c", ["-DDEST", "-DRES=%d" % r], unwind=r + 2, est=20 + 5 * r, tier=t, mem=("M" if r >= 9 else "S"), bound="all valid cells of res %d x directions" % r))
        if r <= 8 or r == 15:
            t = "quick" if r <= 2 else "thorough"
            js.append(J("cells2edge_r%d" % r, "C10_edges.c", ["-DCELLS2EDGE", "-DRES=%d" % r], unwind=r + 2, est=60 + 20 * r, mem=("L" if r > 8 else "M"), tier=t, timeout=2400, bound="all neighbour pairs at res %d" % r))
        if r <= 3:
            t = "quick" if r <= 1 else "thorough"
            js.append(J("anydest_r%d" % r, "C10_edges.c", ["-DANYDEST", "-DRES=%d" % r], unwind=r + 2, us={"harness.0": 8}, est=100 + 50 * r, mem="M", tier=t, timeout=2400, bound="all valid origins of res %d x all 2^64 destination words" % r))
    js += with_witness(J("origins_r2", "C10_edges.c", ["-DORIGINS", "-DRES=2"], unwind=17, est=5))[1:]
    js += with_witness(J("dest_r1", "C10_edges.c", ["-DDEST", "-DRES=1"], unwind=3, est=5))[1:]
    js += with_witness(J("cells2edge_r1", "C10_edges.c", ["-DCELLS2EDGE", "-DRES=1"], unwind=3, est=30, mem="M"))[1:]
    js += with_witness(J("anydest_r0", "C10_edges.c", ["-DANYDEST", "-DRES=0"], unwind=2, us={"harness.0": 8}, est=30, mem="M"))[1:]
    return js


# ------------------------------------------------------------------------------------------- C03
@prop("C03",
      functions=["getNumCells", "res0CellCount", "pentagonCount", "getPentagons", "getRes0Cells", "setH3Index", "cellToChildrenSize", "isPentagon", "_h3ToFaceIjk", "_h3ToFaceIjkWithInitializedFijk", "_faceIjkToH3", "_adjustOverageClassII", "_upAp7 (lemma)", "_upAp7r (lemma)", "_downAp7", "_downAp7r", "_neighbor", "_ijkNormalize", "_unitIjkToDigit"],
      bounds={"quick": "counts: all int resolutions; getPentagons: all int res x all valid cells of res 0,1,7,15; getRes0Cells: all valid res-0 cells; FaceIJK round trip: all valid cells of res 0-1",
              "thorough": "getPentagons x all valid cells of every resolution; FaceIJK round trip: all valid cells of res 0-3"},
      outside="the two trigonometric legs of latLngToCell(cellToLatLng(h)) (no bit-precise libm model); FaceIJK round trip above res 3 (SAT cannot invert the aperture-7 arithmetic at larger magnitudes)",
      assumptions=["L-UP7 integer model of _upAp7/_upAp7r, proved equal to the real functions on the asserted range in the same run"],
      stubs=["_upAp7, _upAp7r -> integer model (FIJK jobs only)"])
def c03(tier):
    js = []
    js.append(J("valid_predicate_allwords", "C01_valid.c", unwind=17, est=5, bound="the validity predicate the count refers to: all 2^64 words"))
    js += with_witness(J("counts", "C03_counts.c", ["-DCOUNTS"], unwind=17, us={"harness.0": 123, "harness.1": 123, "harness.2": 123, "_ipow.0": 6}, est=20, bound="all int resolutions"))
    js += with_witness(J("res0", "C03_counts.c", ["-DRES0"], unwind=17, est=10, bound="all valid res-0 cells, all slots"))
    for r in ALLRES:
        t = "quick" if r in (0, 1, 7, 15) else "thorough"
        j = J("pents_r%d" % r, "C03_counts.c", ["-DPENTS", "-DRES=%d" % r], unwind=17, us={"harness.0": 15, "harness.1": 13, "setH3Index.0": 17}, est=20, tier=t, bound="all int res, all valid cells of res %d" % r)
        js += with_witness(j, tier=t) if r in (1, 15) else [j]
    js += up7_lemma(10)
    for r in (0, 1, 2, 3):
        t = "quick" if r <= 1 else "thorough"
        j = J("fijk_r%d" % r, "C03_counts.c", ["-DFIJK", "-DRES=%d" % r, "-DUPB=(1<<10)"], unwind=r + 2, us={"_faceIjkToH3.0": r + 2}, unit_defs=UP7_DEFS, est=100 + 200 * r, mem="M", tier=t, timeout=3000,
              bound="all valid cells of res %d" % r)
        js += with_witness(j, tier=t) if r == 1 else [j]
    return js


# ------------------------------------------------------------------------------------------- C07
POLY_OUTSIDE = ("which cells are returned (needs every cell centre: trig; cellToBBox scale factors; the ray cast pointInside*: symbolic FP division - "
                "probed, no verdict on any back end), both size bounds, the legacy flood fill's hashing. Mutants confined to the trig / estimate / ray-cast layer are not detected.")


GEO_STUBS = {"h3Index": ["cellToLatLng", "cellToBoundary", "latLngToCell"], "polyfill": ["cellToBBox"], "bbox": ["bboxHexEstimate"], "algos": ["gridDisk", "_getEdgeHexagons"], "polygon": ["pointInsidePolygon"]}


ITER_STUBS = {"h3Index": ["cellToLatLng", "cellToBoundary", "latLngToCell"], "polyfill": ["cellToBBox"], "polygon": ["pointInsidePolygon", "cellBoundaryInsidePolygon", "cellBoundaryCrossesPolygon"], "bbox": ["bboxOverlapsBBox", "bboxContainsBBox", "bboxContains"]}


def iter_glue_jobs():
    js = []
    for tres in (1, 6, 15):
        us = {"iterStepChild.0": 4, "cellToChildren.0": 9, "_ipow.0": 6}
        for k in range(8):
            us["harness.%d" % k] = 17
        j = J("fulliter_t%d" % tres, "C07_fulliter.c", ["-DTRES=%d" % tres], unwind=17, us=us, stubs={"polyfill": ["iterInitPolygonCompact", "iterStepPolygonCompact", "iterDestroyPolygonCompact"]}, est=60, mem="M", timeout=1500, tier=("quick" if tres != 6 else "thorough"),
              bound="full polygon iterator over any sequence of <= 2 compact cells of res %d or %d" % (tres - 1, tres))
        js += with_witness(j, tier=j["tier"]) if tres == 1 else [j]
    for (cres, tres, t) in ((0, 0, "quick"), (0, 1, "quick"), (1, 1, "quick"), (2, 3, "quick"), (3, 3, "thorough"), (5, 6, "thorough"), (14, 15, "thorough"), (15, 15, "thorough")):
        us = {"iterStepPolygonCompact.0": 6, "nextCell.0": tres + 2, "ref_next.0": 17, "idx_of.0": 5, "id_of.0": 5}
        for k in range(8):
            us["harness.%d" % k] = 40
        j = J("itergl_c%d_t%d" % (cres, tres), "C07_itergl.c", ["-DCRES=%d" % cres, "-DTRES=%d" % tres], unwind=17, us=us, stubs=ITER_STUBS, est=60, mem="M", tier=t, timeout=1800, witness_expect=["emits", "exhausted"],
              bound="one iterator step from any valid cell of res %d, target res %d, all 4 modes, <= 4 cells examined, any predicate answers" % (cres, tres))
        js += with_witness(j, tier=t) if (cres, tres) == (0, 1) else [j]
    return js


@prop("C07",
      functions=["nextCell", "baseCellNumToCell", "bboxContains", "bboxOverlapsBBox", "bboxContainsBBox", "bboxNormalization", "normalizeLng", "bboxIsTransmeridian", "bboxFromGeoLoop", "validatePolygonFlags", "_iterInitPolygonCompact", "iterStepPolygonCompact", "polygonToCellsExperimental", "maxPolygonToCellsSizeExperimental", "polygonToCells", "maxPolygonToCellsSize"],
      bounds={"quick": "nextCell: all valid cells of res 0-8,15; bbox algebra: all doubles in range under the representation invariant; bboxFromGeoLoop: all loops of 3 vertices; flags: all 2^32 flag words x all int resolutions; empty polygon: all modes x resolutions",
              "thorough": "nextCell at all 16 resolutions; bboxFromGeoLoop with 4 vertices"},
      outside=POLY_OUTSIDE,
      assumptions=["bbox representation invariant east<west => east<0<west (proved for bboxFromGeoLoop output, assumed for cellToBBox output)"],
      stubs=[])
def c07(tier):
    js = []
    for r in ALLRES:
        t = "quick" if r <= 8 or r == 15 else "thorough"
        j = J("nextcell_r%d" % r, "C07_poly.c", ["-DNEXTCELL", "-DRES=%d" % r], unwind=r + 2, us={"harness.0": 17, "setH3Index.0": 2}, include_units=["polyfill"], est=10 + 5 * r, tier=t, bound="all valid cells of res %d" % r)
        js += with_witness(j, tier=t) if r in (0, 3, 15) else [j]
    js += with_witness(J("bbox_algebra", "C07_poly.c", ["-DBBOX"], unwind=2, est=30, bound="all in-range doubles (two boxes and a point)"))
    js += with_witness(J("bboxloop_3", "C07_poly.c", ["-DBBOXLOOP", "-DNV=3"], unwind=5, est=30, bound="all loops of 3 in-range vertices"))
    js += [J("bboxloop_4", "C07_poly.c", ["-DBBOXLOOP", "-DNV=4"], unwind=6, est=60, tier="thorough", bound="all loops of 4 in-range vertices")]
    js += with_witness(J("polyglue", "C07_polyglue.c", [], unwind=5, est=10, stubs={"polygon": ["pointInsideGeoLoop", "cellBoundaryCrossesGeoLoop", "bboxFromGeoLoop"]}, bound="outer loop + 0-2 holes, any loop-level results"))
    js += iter_glue_jobs()
    js.append(J("cross_reject_sound_tri_g2", "C15_cross.c", ["-DNVL=3", "-DNVB=2", "-DGRID=2"], unwind=5, us={"cellBoundaryCrossesGeoLoop.0": 5, "cellBoundaryCrossesGeoLoop.1": 5, "cellBoundaryCrossesGeoLoop.2": 5, "bboxFromGeoLoop.0": 5, "harness.0": 5, "harness.1": 5, "harness.2": 5, "harness.3": 5, "harness.4": 5, "harness.5": 5}, est=600, mem="M", timeout=3000, tier="thorough", core=False,
                stubs={"polygon": ["lineCrossesLine"]}, bound="quick rejects of the crossing test (used for coarse cells in every mode): triangle polygon loop x one cell-boundary segment, 2^-2 rad grid"))
    js += with_witness(J("flags", "C07_poly.c", ["-DFLAGS"], unwind=3, est=10, stubs=GEO_STUBS, bound="all 2^32 flag words x all int resolutions x outer loop of 0-3 vertices"))
    js += with_witness(J("empty", "C07_poly.c", ["-DEMPTY"], unwind=5, est=10, stubs=GEO_STUBS, bound="all valid modes x resolutions"))
    return js


# ------------------------------------------------------------------------------------------- C15
@prop("C15",
      functions=["polygonToCellsExperimental", "validatePolygonFlags", "_iterInitPolygonCompact", "maxPolygonToCellsSizeExperimental", "bboxContains", "bboxOverlapsBBox", "bboxContainsBBox"],
      bounds="capacity bound: every iterator sequence of <= 6 arbitrary cells x every capacity 0..6 x every final status; flags: all 2^32 words x all int resolutions; bbox pruning algebra as C07",
      outside="which cells each containment mode returns, nesting of the modes and the size upper bound (cell boundaries: trig; lineCrossesLine / ray cast: symbolic FP multiplication and division - probed, no verdict)",
      assumptions=["the iterator is replaced by an arbitrary finite sequence (over-approximates every real polygon iterator)"],
      stubs=["iterInitPolygon, iterStepPolygon, iterDestroyPolygon -> arbitrary sequence (capacity job only)"])
def c15(tier):
    js = []
    js += with_witness(J("cross_reject_sound", "C15_cross.c", ["-DNVX=2", "-DGRID=4"], unwind=5, tier="thorough", core=False, us={"cellBoundaryCrossesGeoLoop.0": 5, "cellBoundaryCrossesGeoLoop.1": 5, "cellBoundaryCrossesGeoLoop.2": 5, "bboxFromGeoLoop.0": 5, "harness.0": 5, "harness.1": 5, "harness.2": 5, "harness.3": 5, "harness.4": 5, "harness.5": 5}, est=600, mem="M", timeout=3000,
                         stubs={"polygon": ["lineCrossesLine"]}, bound="one polygon segment x one cell-boundary segment (2-vertex loops), coordinates on a 2^-4 rad grid over the whole lat/lng range, boxes narrower than 3 rad (triangles / full doubles: no verdict in 1800 s)"))
    js.append(J("cross_reject_sound_g3", "C15_cross.c", ["-DNVX=2", "-DGRID=3"], unwind=5, us={"cellBoundaryCrossesGeoLoop.0": 5, "cellBoundaryCrossesGeoLoop.1": 5, "cellBoundaryCrossesGeoLoop.2": 5, "bboxFromGeoLoop.0": 5, "harness.0": 5, "harness.1": 5, "harness.2": 5, "harness.3": 5, "harness.4": 5, "harness.5": 5}, est=200, mem="M", timeout=700, core=False,
                stubs={"polygon": ["lineCrossesLine"]}, bound="one polygon segment x one cell-boundary segment, coordinates on a 2^-3 rad grid, boxes narrower than 3 rad"))
    js.append(J("cross_reject_sound_tri_g2", "C15_cross.c", ["-DNVL=3", "-DNVB=2", "-DGRID=2"], unwind=5, us={"cellBoundaryCrossesGeoLoop.0": 5, "cellBoundaryCrossesGeoLoop.1": 5, "cellBoundaryCrossesGeoLoop.2": 5, "bboxFromGeoLoop.0": 5, "harness.0": 5, "harness.1": 5, "harness.2": 5, "harness.3": 5, "harness.4": 5, "harness.5": 5}, est=600, mem="M", timeout=3000, tier="thorough", core=False,
                stubs={"polygon": ["lineCrossesLine"]}, bound="triangle polygon loop (each edge in one orientation only) x one cell-boundary segment, coordinates on a 2^-2 rad grid, boxes narrower than 3 rad"))
    js += with_witness(J("capacity_4", "C15_bound.c", ["-DNSEQ=4"], unwind=8, est=10, stubs={"polyfill": ["iterInitPolygon", "iterStepPolygon", "iterDestroyPolygon"]}, bound="sequences <= 4 cells"))
    js += [J("capacity_6", "C15_bound.c", ["-DNSEQ=6"], unwind=10, est=20, stubs={"polyfill": ["iterInitPolygon", "iterStepPolygon", "iterDestroyPolygon"]}, bound="sequences <= 6 cells")]
    js += with_witness(J("polyglue", "C07_polyglue.c", [], unwind=5, est=10, stubs={"polygon": ["pointInsideGeoLoop", "cellBoundaryCrossesGeoLoop", "bboxFromGeoLoop"]}, bound="outer loop + 0-2 holes, any loop-level results"))
    js += iter_glue_jobs()
    js += with_witness(J("flags", "C07_poly.c", ["-DFLAGS"], unwind=3, est=10, stubs=GEO_STUBS, bound="all 2^32 flag words x all int resolutions x outer loop of 0-3 vertices"))
    js += with_witness(J("bbox_algebra", "C07_poly.c", ["-DBBOX"], unwind=2, est=30, bound="all in-range doubles"))
    return js


# ------------------------------------------------------------------------------------------- C09
@prop("C09",
      functions=["gridDistance", "gridPathCellsSize", "cellToLocalIjk", "cellToLocalIj", "localIjToCell", "localIjkToCell", "ijkDistance", "ijToIjk", "ijkToIj", "_h3ToFaceIjkWithInitializedFijk", "_getBaseCellDirection", "h3NeighborRotations"],
      bounds={"quick": "a=b, resolution mismatch (any valid cell of another resolution), mode != 0: all valid cells of res 0,1; neighbours at distance 1: all neighbour pairs of res 0-2; symmetry: every pair of cells of res 0 and of res 1; Lipschitz half res 0; IJ round trip res 0-2, |i|,|j| <= 64",
              "thorough": "neighbours: res 0-6; symmetry and the Lipschitz half of the graph-distance characterisation: every pair of cells of res 0-2; IJ round trip res 0-4, |i|,|j| <= 64 (res 2: <= 400)"},
      outside="graph-distance equality beyond the local characterisation; IJ round trips above res 2 / beyond 2^6 (SAT cannot invert the coordinate arithmetic); unit-step clause",
      assumptions=["L-UP7 model for _upAp7Checked/_upAp7rChecked in the IJ round-trip job (lemma proved in the same run)"],
      stubs=["_upAp7*, _upAp7r* -> integer model (IJRT only)"])
def c09(tier):
    js = []
    LL = {"cellToLocalIjk.0": 7, "cellToLocalIjk.1": 7, "cellToLocalIjk.2": 7, "cellToLocalIjk.3": 7, "cellToLocalIjk.4": 7, "cellToLocalIjk.5": 7,
          "localIjkToCell.1": 7, "localIjkToCell.2": 7, "localIjkToCell.3": 7, "localIjkToCell.4": 7, "localIjkToCell.5": 7, "localIjkToCell.6": 7}
    for r in (0, 1, 4):
        j = J("basic_r%d" % r, "C09_dist.c", ["-DBASIC", "-DRES=%d" % r], unwind=r + 2, us=LL, est=60 + 5 * r, mem="M", tier=("quick" if r <= 1 else "thorough"), bound="all valid cells of res %d (mismatching cell: any valid cell of any other resolution)" % r)
        js += with_witness(j) if r == 1 else [j]
    for r in ALLRES:
        if r > 6:
            continue
        t = "quick" if r <= 2 else "thorough"
        j = J("nbr_r%d" % r, "C09_dist.c", ["-DNBR", "-DRES=%d" % r], unwind=r + 2, us=LL, est=100 + 50 * r, tier=t, mem="M", timeout=3000, core=(r <= 5), bound="all neighbour pairs of res %d" % r)
        js += with_witness(j, tier=t) if r == 1 else [j]
    for r in (0, 1, 2):
        t = "quick" if r <= 1 else "thorough"
        j = J("sym_r%d" % r, "C09_dist.c", ["-DSYM", "-DRES=%d" % r], unwind=r + 2, us=LL, est=100 + 500 * r, tier=t, mem="M", timeout=3400, bound="every pair of cells of res %d" % r)
        js += with_witness(j, tier=t) if r == 0 else [j]
        j = J("lip_r%d" % r, "C09_dist.c", ["-DLIP", "-DRES=%d" % r], unwind=r + 2, us=LL, est=200 + 600 * r, tier=("quick" if r == 0 else "thorough"), mem="M", timeout=3400, bound="every (a, b, direction) of res %d" % r)
        js += with_witness(j, tier="quick") if r == 0 else [j]
    # lippent_r3/r4 (Lipschitz condition for pentagon-base-cell origins at res 3-4, harness mode LIP+PENTBC) gave no verdict in 3400 s - not registered
    js += up7_lemma(10, checked=True)
    for r in (0, 1, 2, 3, 4):
        t = "quick" if r <= 2 else "thorough"
        j = J("ijrt_r%d" % r, "C09_dist.c", ["-DIJRT", "-DRES=%d" % r, "-DIJB=64", "-DUPB=(1<<10)"], unwind=r + 2, us=dict(LL, **{"localIjkToCell.0": r + 2}), unit_defs=UP7_DEFS_CHK, est=30 + 50 * r, tier=t, mem="M", timeout=3400, core=(r <= 2),
              bound="all origins of res %d, |i|,|j| <= 64" % r)
        js += with_witness(j, tier=t) if r == 1 else [j]
    js.append(J("ijrt_r2_wide", "C09_dist.c", ["-DIJRT", "-DRES=2", "-DIJB=400", "-DUPB=(1<<10)"], unwind=4, us=dict(LL, **{"localIjkToCell.0": 4}), unit_defs=UP7_DEFS_CHK, est=300, tier="thorough", mem="M", timeout=3400, core=False, bound="all origins of res 2, |i|,|j| <= 400"))
    return js


# ------------------------------------------------------------------------------------------- C11
@prop("C11",
      functions=["cellToVertex", "cellToVertexes", "isValidVertex", "directionForVertexNum", "vertexNumForDirection", "vertexRotations", "h3NeighborRotations", "directionForNeighbor", "_h3ToFaceIjk", "_baseCellToCCWrot60"],
      bounds={"quick": "glue (cellToVertex, isValidVertex, cellToVertexes): every 64-bit cell word and every component value within the contracts; centre-child minimality: all valid cells of res 1-8,15; vertex/direction bijection: res 0-1",
              "thorough": "centre-child minimality all resolutions; bijection res 0-3; triangle (corner neighbours adjacent) res 0-2; end to end cellToVertex + isValidVertex res 0-1"},
      outside="the global 2N-4 count; vertexToLatLng agreement with cellToBoundary (trig); lattice identity of the owner's corner (C08)",
      assumptions=["glue contracts: neighbour step total/distinct (C05.H1/H2), back-direction witness (C05.H3), bijection (VNUMBIJ), centre-child minimality (CENTREMIN), triangle (TRIANGLE, res 0-2 only)"],
      stubs=["GLUE_C2V: isPentagon, directionForVertexNum, vertexNumForDirection, h3NeighborRotations, directionForNeighbor", "GLUE_VALID / GLUE_VERTEXES: cellToVertex (+isPentagon)"])
def c11(tier):
    js = []
    js += with_witness(J("glue_cellToVertex", "C11_glue.c", ["-DGLUE_C2V"], unwind=8, est=10, witness_expect=["left owner", "right owner"],
                         stubs={"h3Index": ["isPentagon"], "vertex": ["directionForVertexNum", "vertexNumForDirection"], "algos": ["h3NeighborRotations", "directionForNeighbor"]},
                         bound="any cell word, any component values"))
    js += with_witness(J("glue_isValidVertex", "C11_glue.c", ["-DGLUE_VALID"], unwind=17, est=5, stubs={"vertex": ["cellToVertex"]}, bound="all 2^64 words x any canonical index / error"))
    js += with_witness(J("glue_vertexToLatLng", "C11_glue.c", ["-DGLUE_V2LL"], unwind=14, est=5, stubs={"h3Index": ["isPentagon", "_h3ToFaceIjk"], "faceijk": ["_faceIjkPentToCellBoundary", "_faceIjkToCellBoundary"]}, bound="any vertex word with an in-range vertex number, any distortion pattern"))
    js += with_witness(J("glue_cellToVertexes", "C11_glue.c", ["-DGLUE_VERTEXES"], unwind=10, est=5, stubs={"vertex": ["cellToVertex"], "h3Index": ["isPentagon"]}, bound="any cell word, any per-vertex results"))
    for r in range(1, 16):
        t = "quick" if r <= 8 or r == 15 else "thorough"
        j = J("centremin_r%d" % r, "C11_comp.c", ["-DCENTREMIN", "-DRES=%d" % r], unwind=r + 2, est=10 + 5 * r, tier=t, bound="all centre children of res %d x directions" % r)
        js += with_witness(j, tier=t) if r == 2 else [j]
    js += up7_lemma(10)
    for r in (0, 1, 2, 3):
        t = "quick" if r <= 1 else "thorough"
        j = J("vnumbij_r%d" % r, "C11_comp.c", ["-DVNUMBIJ", "-DRES=%d" % r, "-DUPB=(1<<10)"], unwind=r + 2, unit_defs=UP7_DEFS, est=60 + 60 * r, mem="M", tier=t, timeout=2400, bound="all valid cells of res %d x all int vertex numbers and directions" % r)
        js += with_witness(j, tier=t) if r == 1 else [j]
    for r in (0, 1, 2):
        j = J("triangle_r%d" % r, "C11_comp.c", ["-DTRIANGLE", "-DRES=%d" % r, "-DUPB=(1<<10)"], unwind=r + 2, unit_defs=UP7_DEFS, est=300 + 300 * r, mem="L", tier="thorough", timeout=3400, core=False, bound="all valid cells of res %d x corners" % r)
        js += with_witness(j, tier="thorough") if r == 0 else [j]
    for r in (0, 1):
        j = J("e2e_r%d" % r, "C11_comp.c", ["-DE2E", "-DRES=%d" % r, "-DUPB=(1<<10)"], unwind=r + 2, unit_defs=UP7_DEFS, est=600 + 600 * r, mem="L", tier="thorough", timeout=3400, core=False, bound="all valid cells of res %d x vertex numbers" % r)
        js += with_witness(j, tier="thorough") if r == 0 else [j]
    return js


# ------------------------------------------------------------------------------------------- C12
C12_LOOPS = {"cellToLocalIjk.0": 7, "cellToLocalIjk.1": 7, "cellToLocalIjk.2": 7, "cellToLocalIjk.3": 7, "cellToLocalIjk.4": 7, "cellToLocalIjk.5": 7,
             "localIjkToCell.1": 7, "localIjkToCell.2": 7, "localIjkToCell.3": 7, "localIjkToCell.4": 7, "localIjkToCell.5": 7, "localIjkToCell.6": 7,
             "_ipow.0": 6, "gridDiskDistancesUnsafe.0": 8, "_gridDiskDistancesInternal.0": 8, "_gridDiskDistancesInternal.1": 7,
             "gridRingUnsafe.0": 3, "gridRingUnsafe.1": 3, "gridRingUnsafe.2": 7, "harness.0": 8}


@prop("C12",
      functions=["every exported function listed in the job names; internal NEVER/ALWAYS/assert sites become proof obligations (build without NDEBUG)"],
      bounds={"quick": "arbitrary 64-bit words / ints / int64 / doubles. Single-word integer APIs: all 2^64 words. APIs walking the digits (disks k<=1, pairs, local IJ): words whose resolution field is 0 (local IJ functions also 1; every other bit arbitrary, incl. invalid digits, modes, base cells 122-127). compactCells: 3 arbitrary words; uncompactCells: 2 words, <= 14 outputs; cellToChildren: one level",
              "thorough": "digit-walking APIs at resolution fields 0-3; cellToVertex at field 0 (class L)"},
      outside="k >= 2, larger sets, deeper children; every API that reaches trigonometry or the FP cell-boundary code (latLngToCell beyond argument validation, cellToLatLng, cellToBoundary, vertexToLatLng, areas, edge lengths, polygon functions, cellsToLinkedMultiPolygon): their integer prefixes are covered by C02/C03/C19 jobs, the FP kernels are not decided",
      assumptions=["malloc does not fail in these jobs (allocation failure is C17)", "S-TRIG stubs for greatCircleDistance*"],
      stubs=["sin, cos, asin, ... -> S-TRIG (GCDIST job only)", "getIcosahedronFaces_glue: isPentagon, _h3ToFaceIjk, _faceIjkToVerts, _faceIjkPentToVerts, _adjustOverageClassII, _adjustPentVertOverage -> arbitrary faces 0-19 / errors (its loops and exact-size output buffer are the subject)"])
def c12(tier):
    js = []
    def ub(name, defs, **kw):
        kw.setdefault("unwind", 17)
        kw.setdefault("us", C12_LOOPS)
        return J(name, "C12_api.c", defs, mode="debug", checks="ub", **kw)
    js += with_witness(ub("cheap_apis", ["-DCHEAP"], est=20, bound="all words / ints / doubles"))
    js += [ub("res0cells", ["-DRES0CELLS"], est=5, bound="-")]
    js += with_witness(ub("hierarchy", ["-DHIER"], est=20, bound="all 2^64 words x all ints"))
    js += [ub("cellToChildPos", ["-DCHILDPOS"], est=200, mem="M", timeout=1800, tier="thorough", bound="all 2^64 words x all ints")]
    js += [ub("childPosToCell", ["-DPOSCHILD"], est=200, mem="M", timeout=1800, bound="all 2^64 words x all ints x all int64")]
    js += with_witness(ub("cellToChildren", ["-DCHILDREN"], us=dict(C12_LOOPS, **{"cellToChildren.0": 9, "iterStepChild.0": 18}), est=60, mem="M", bound="all words, one level"))
    for cap in (0, 1, 7, 13, 14):
        j = ub("uncompact_cap%d" % cap, ["-DUNCOMPACT", "-DCAPV=%d" % cap], us=dict(C12_LOOPS, **{"uncompactCells.0": 9, "uncompactCells.1": 4, "uncompactCellsSize.0": 4, "iterStepChild.0": 18}), est=120, mem="M", timeout=1800, bound="2 arbitrary words, <= 14 outputs, capacity %d" % cap)
        j["tier"] = "quick" if cap <= 1 else "thorough"
        js += with_witness(j, tier=j["tier"]) if cap == 1 else [j]
    js += [ub("compact_3", ["-DCOMPACT", "-DNW=3"], unwind=17, us=dict(C12_LOOPS, **{"compactCells.0": 5, "compactCells.1": 5, "compactCells.2": 5, "compactCells.3": 5, "compactCells.4": 5, "compactCells.5": 5, "compactCells.6": 3}), est=120, mem="M", timeout=1800, bound="3 arbitrary words")]
    js += [ub("gcdist", ["-DGCDIST"], est=20, bound="all doubles (S-TRIG)")]
    qres = (0,)
    tres = (1, 2, 3)
    for r in qres + tres:
        t = "quick" if r in qres else "thorough"
        for fn, nm in enumerate(("gridDisk", "gridDiskDistances", "gridDiskDistancesSafe", "gridDiskUnsafe", "gridDiskDistancesUnsafe", "gridRingUnsafe")):
            for kk in (-1, 0, 1):  # kneg = the concrete value -1
                if kk < 1 and r > 0:
                    continue
                js.append(ub("%s_r%d_k%s" % (nm, r, "neg" if kk < 0 else kk), ["-DDISK", "-DFN=%d" % fn, "-DRES=%d" % r, "-DKK=%d" % kk], unwind=max(r + 2, 4), est=150 + 60 * r, mem="M", tier=t, timeout=2400, bound="words with resolution field %d, k %s" % (r, "< 0" if kk < 0 else "= %d" % kk)))
        for fn, nm in enumerate(("areNeighborCells", "cellsToDirectedEdge", "getDirectedEdgeDestination", "directedEdgeToCells", "gridDistance", "cellToLocalIj")):
            js.append(ub("%s_r%d" % (nm, r), ["-DPAIR", "-DFN=%d" % fn, "-DRES=%d" % r], unwind=max(r + 2, 4), est=150 + 60 * r, mem="M", tier=("quick" if (r == 1 and fn in (4, 5)) else t), timeout=2400, bound="first word with resolution field %d, second arbitrary" % r))
        js.append(ub("localIjToCell_r%d" % r, ["-DIJ2CELL", "-DRES=%d" % r], unwind=r + 2, est=150 + 60 * r, mem="M", tier=("quick" if r == 1 else t), timeout=2400, bound="origin word with resolution field %d, all int32 i,j, all modes" % r))
    for r in (0,):
        for fn, nm in enumerate(("cellToVertex", "cellToVertexes", "isValidVertex", "getIcosahedronFaces")):
            if fn != 0:
                continue   # calibrated: cellToVertexes / isValidVertex no verdict in 1500 s, getIcosahedronFaces 18 GB; only cellToVertex fits (847 s, 14 GB)
            js.append(ub("%s_r%d" % (nm, r), ["-DVERTEXAPI", "-DFN=%d" % fn, "-DRES=%d" % r, "-DUPB=(1<<10)"], unwind=max(r + 2, 8), us=dict(C12_LOOPS, **{"getIcosahedronFaces.0": 7, "getIcosahedronFaces.1": 7, "getIcosahedronFaces.2": 7}), unit_defs=UP7_DEFS, est=1, mem="L", tier="thorough", timeout=1500, core=False,
                         bound="arbitrary word with resolution field %d (L-UP7 model for the aperture-7 parent)" % r))
    js += with_witness(ub("gridDisk_r0_k1", ["-DDISK", "-DFN=0", "-DRES=0", "-DKK=1"], unwind=4, est=100, mem="M"))[1:]
    js += with_witness(ub("areNeighborCells_r0", ["-DPAIR", "-DFN=0", "-DRES=0"], unwind=4, est=100, mem="M"))[1:]
    # getIcosahedronFaces end to end does not fit (above); its own loops and exact-size output buffer are decided on any word
    # with the geometry replaced by arbitrary faces (the C19 glue harness, here with the undefined-behaviour checks as the subject)
    js.append(J("getIcosahedronFaces_glue", "C19_faces.c", ["-DGLUE"], unwind=8, est=10, checks="ub",
                stubs={"h3Index": ["isPentagon", "_h3ToFaceIjk"], "faceijk": ["_faceIjkToVerts", "_faceIjkPentToVerts", "_adjustOverageClassII", "_adjustPentVertOverage"]},
                bound="any word, arbitrary vertex faces 0-19 and conversion errors, output buffer of exactly maxFaceCount ints"))
    return js


# ------------------------------------------------------------------------------------------- C17
MEM_LOOPS = {"memcpy.0": 9, "memcpy.1": 9, "memcpy.2": 2, "memset.0": 9, "memset.1": 9, "memset.2": 2, "vp_alloc_init.0": 13, "vp_free.0": 13}


@prop("C17",
      functions=["compactCells", "areNeighborCells", "gridDisk", "gridDiskDistances", "_gridDiskDistancesInternal", "polygonToCellsExperimental", "maxPolygonToCellsSizeExperimental", "iterInitPolygonCompact", "iterStepPolygonCompact", "iterDestroyPolygonCompact"],
      bounds={"quick": "every failure schedule (symbolic bit per allocation) of: compactCells on 3 arbitrary words; areNeighborCells on every neighbour pair of res 0-1; gridDisk/gridDiskDistances k=1 on every cell of res 0-1; polygonToCellsExperimental / maxPolygonToCellsSizeExperimental on polygons of 0-3 vertices with 0-1 hole, any flags/resolution, geometry over-approximated",
              "thorough": "neighbour pairs and disks at res 0-3, arbitrary-origin disks at res 2, maxPolygonToCellsSizeExperimental"},
      outside="k >= 2, larger sets and polygons; legacy polygonToCells beyond a size estimate of 2 cells and one seed",
      assumptions=["H3_ALLOC_PREFIX allocator = harness shim; a non-failing allocation returns a fresh block (CBMC malloc/calloc)", "S-GEO: cellToLatLng, cellToBoundary, latLngToCell, cellToBBox and the polygon predicates return arbitrary values in the polygon jobs"],
      stubs=["vp_malloc/vp_calloc/vp_free (S-ALLOC)", "S-GEO in the polygon jobs", "memcpy/memset loop models"])
def c17(tier):
    js = []
    def al(name, defs, **kw):
        kw.setdefault("unwind", 5)
        us = dict(MEM_LOOPS)
        us.update(kw.pop("us", {}))
        return J(name, "C17_alloc.c", defs, alloc=True, us=us, **kw)
    CL = {"compactCells.%d" % i: 8 for i in range(6)}
    CL["compactCells.6"] = 3
    js += with_witness(al("compact_3", ["-DCOMPACT", "-DNW=3"], unwind=17, us=dict(CL, **{"harness.0": 4}), est=60, mem="M", bound="3 arbitrary words, every failure schedule"))
    # compact_6 (6 arbitrary words) was probed: 17 GB, no verdict - not registered
    DL = {"_gridDiskDistancesInternal.0": 8, "_gridDiskDistancesInternal.1": 7, "gridDiskDistancesUnsafe.0": 8, "harness.0": 8, "harness.1": 8, "harness.2": 8}
    for r in (0, 1, 2, 3):
        t = "quick" if r <= 1 else "thorough"
        j = al("neighbors_r%d" % r, ["-DNEIGHBORS", "-DRES=%d" % r], unwind=max(r + 2, 4), us=DL, est=200 + 200 * r, mem="M", tier=t, timeout=3000, bound="every neighbour pair of res %d, every failure schedule" % r)
        js += with_witness(j, tier=t) if r == 0 else [j]
        for wd in (0, 1):
            j = al("disk%s_r%d" % ("dist" if wd else "", r), ["-DDISK", "-DRES=%d" % r] + (["-DWITHDIST"] if wd else []), unwind=max(r + 2, 4), us=DL, est=200 + 200 * r, mem="M", tier=t, timeout=3000, bound="every cell of res %d, k=1, every failure schedule" % r)
            js += with_witness(j, tier=t) if (r == 0 and wd == 0) else [j]
    for r in (0, 1, 2):
        t = "quick" if r <= 1 else "thorough"
        j = al("diskany_r%d" % r, ["-DDISKANY", "-DRES=%d" % r], unwind=max(r + 2, 4), us=DL, est=200 + 100 * r, mem="M", tier=t, timeout=3000, witness_expect=["failure path", "error path"], bound="gridDisk k=1 on ANY 64-bit origin word with resolution field %d (invalid cells included), every failure schedule" % r)
        js += with_witness(j, tier=t) if r == 1 else [j]
    PS = {"h3Index": ["cellToLatLng", "cellToBoundary", "latLngToCell"], "polyfill": ["cellToBBox"], "polygon": ["pointInsidePolygon", "cellBoundaryInsidePolygon", "cellBoundaryCrossesPolygon"]}
    PL = {"iterStepPolygonCompact.0": 5, "nextCell.0": 4, "polygonToCellsExperimental.0": 4, "maxPolygonToCellsSizeExperimental.0": 4, "maxPolygonToCellsSizeExperimental.1": 5, "bboxesFromGeoPolygon.0": 3, "bboxFromGeoLoop.0": 5, "iterStepChild.0": 5, "harness.0": 4, "setH3Index.0": 4}
    for nh in (0, 1):
      js += with_witness(al("polyexp_h%d" % nh, ["-DPOLYEXP", "-DNH=%d" % nh], unwind=5, us=PL, stubs=PS, est=200, mem="M", timeout=2400, bound="outer loop of 0-3 vertices (0 = empty polygon) + <=1 hole, res <= 2 (incl. negative), any flags, capacity 2, <= 3 iterator steps"))
      PSL = {"h3Index": ["cellToLatLng", "cellToBoundary", "latLngToCell"], "polyfill": ["cellToBBox"], "polygon": ["pointInsidePolygon", "cellBoundaryInsidePolygon", "cellBoundaryCrossesPolygon"], "algos": ["maxPolygonToCellsSize", "_getEdgeHexagons", "gridDisk"]}
      # loop bounds of the flood fill for a 2-slot table: holes 2, re-zero 3, probe <= numHexagons+2, ring 7, found <= 2, rounds <= 3
      PLL = {"polygonToCells.0": 3, "polygonToCells.1": 4, "polygonToCells.2": 5, "polygonToCells.3": 8, "polygonToCells.4": 4, "polygonToCells.5": 4, "polygonToCells.6": 4}
      PLL.update({"bboxesFromGeoPolygon.0": 3, "bboxFromGeoLoop.0": 5, "harness.0": 4, "harness.1": 4, "gridDisk.0": 8})
      j = al("polylegacy_h%d" % nh, ["-DPOLYLEGACY", "-DNH=%d" % nh, "-DNHEX=2"], unwind=5, us=PLL, stubs=PSL, est=100, mem="M", timeout=2400, bound="legacy polygonToCells: triangle + %d hole(s), size estimate 2, edge tracer seeds nothing (allocation prologue, tracer errors, epilogue), every failure schedule" % nh)
      js += with_witness(j) if nh == 0 else [j]
      # polylegacy with a seed cell and arbitrary rings (flood fill over a 1- or 2-slot table) was probed three times: 18-30 GB, no verdict - not registered
      js += with_witness(al("polymax_h%d" % nh, ["-DPOLYMAX", "-DNH=%d" % nh], unwind=5, us=PL, stubs=PS, est=400, mem="L", timeout=2400, tier="thorough", bound="outer loop of 0-3 vertices + <=1 hole, res <= 2 (incl. negative), any flags, <= 3 iterator steps"))
    return js


# ------------------------------------------------------------------------------------------- C19
@prop("C19",
      functions=["getIcosahedronFaces", "maxFaceCount", "makeDirectChild", "_h3ToFaceIjk", "_faceIjkToVerts", "_faceIjkPentToVerts", "_adjustOverageClassII", "_adjustPentVertOverage"],
      bounds={"quick": "glue: any cell word, any vertex faces; vertex faces on the real code: all hexagons of res 0-1",
              "thorough": "vertex faces res 0-2 (end to end on symbolic cells: 30 GB, no verdict - dropped)"},
      outside="agreement with nearest-face of interior points in lat/lng; resolutions above 2 for the lattice components (coordinate arithmetic)",
      assumptions=["glue stubs return arbitrary faces 0-19; L-UP7 model in the component jobs"],
      stubs=["GLUE: isPentagon, _h3ToFaceIjk, _faceIjkToVerts, _faceIjkPentToVerts, _adjustOverageClassII, _adjustPentVertOverage"])
def c19(tier):
    js = []
    js += with_witness(J("glue_faces", "C19_faces.c", ["-DGLUE"], unwind=8, est=10, witness_expect=["overflow", "ok"], checks="ub",
                         stubs={"h3Index": ["isPentagon", "_h3ToFaceIjk"], "faceijk": ["_faceIjkToVerts", "_faceIjkPentToVerts", "_adjustOverageClassII", "_adjustPentVertOverage"]},
                         bound="any cell word, any vertex faces, any conversion error"))
    js += up7_lemma(10)
    for r in (0, 1, 2):
        t = "quick" if r <= 1 else "thorough"
        j = J("vertface_r%d" % r, "C19_faces.c", ["-DVERTFACE", "-DRES=%d" % r, "-DUPB=(1<<10)"], unwind=r + 2, unit_defs=UP7_DEFS, include_units=["faceijk"], est=100 + 200 * r, mem="M", tier=t, timeout=3000, bound="all hexagons of res %d x vertex pairs" % r)
        js += with_witness(j, tier=t) if r == 1 else [j]
    # end-to-end getIcosahedronFaces on symbolic cells (res 0/1) was probed: 30 GB, no verdict - not registered
    return js


# ------------------------------------------------------------------------------------------- C08
@prop("C08",
      functions=["cellToBoundary", "_faceIjkToCellBoundary", "_faceIjkPentToCellBoundary", "_faceIjkToVerts", "_faceIjkPentToVerts", "_adjustOverageClassII", "_adjustPentVertOverage", "_h3ToFaceIjk", "cellAreaKm2", "cellAreaM2", "vertexRotations", "h3NeighborRotations"],
      bounds={"quick": "unit scaling of cellAreaKm2/M2: stub values k*2^s, |k|<=2^12, all error codes; vertex counts: all valid cells of res 0-1 with arbitrary projection / intersection results",
              "thorough": "vertex counts res 0-3; shared corner (lattice identity across the shared edge): all hexagon pairs of res 0-1"},
      outside="every statement about latitude/longitude values: orientation, centre inside, 1e-12 coincidence across face projections, cellAreaRads2, the 4*pi sum (trig; symbolic FP division in _v2dIntersect). Only the lattice / count / unit-scaling clauses are decided.",
      assumptions=["S-GEO: _hex2dToGeo, _v2dIntersect, _v2dAlmostEquals return arbitrary values in the count jobs", "L-UP7 model"],
      stubs=["cellAreaRads2 (scaling glue)", "_hex2dToGeo, _v2dIntersect, _v2dAlmostEquals (count jobs)"])
def c08(tier):
    js = []
    js += with_witness(J("scale_area", "scale_glue.c", ["-DAREA"], unwind=3, est=20, stubs={"latLng": ["cellAreaRads2"]}, bound="stub values k*2^s, all error codes"))
    BST = {"h3Index": ["isPentagon", "_h3ToFaceIjk"], "faceijk": ["_faceIjkPentToCellBoundary", "_faceIjkToCellBoundary"], "vertex": ["vertexNumForDirection"]}
    js += with_witness(J("glue_cellBoundary", "C10_boundary_glue.c", ["-DCELL"], unwind=14, est=10, stubs=BST, bound="any cell word, any distortion pattern"))
    js += with_witness(J("sum_area", "sum_glue.c", ["-DMAXN=7", "-DKMAX=63"], unwind=12, us={"cellAreaRads2.0": 12}, est=100, stubs={"h3Index": ["cellToLatLng", "cellToBoundary"], "latLng": ["triangleArea"]}, bound="boundaries of 5-7 points, triangle areas k*2^-20 with k <= 63, any error"))
    js.append(J("sum_area_full", "sum_glue.c", [], unwind=12, us={"cellAreaRads2.0": 12}, est=900, tier="thorough", timeout=3000, core=False, stubs={"h3Index": ["cellToLatLng", "cellToBoundary"], "latLng": ["triangleArea"]}, bound="boundaries of 5-10 points, triangle areas k*2^-20 with k <= 4096, any error"))
    js += up7_lemma(10)
    CS = {"faceijk": ["_hex2dToGeo"], "vec2d": ["_v2dIntersect", "_v2dAlmostEquals"]}
    for r in (0, 1, 2, 3):
        if r > 1:
            continue
        t = "thorough"
        j = J("count_r%d" % r, "C08_boundary.c", ["-DCOUNT", "-DRES=%d" % r, "-DUPB=(1<<10)"], mode="debug", checks="ub", unwind=r + 2, us={"_faceIjkToCellBoundary.0": 8, "_faceIjkPentToCellBoundary.0": 7, "_faceIjkPentToCellBoundary.1": 7},
              unit_defs=UP7_DEFS, stubs=CS, est=200 + 300 * r, mem="L", tier=t, timeout=3400, core=(r <= 1), bound="all valid cells of res %d" % r)
        js += with_witness(j, tier=t) if r == 1 else [j]
    for r in (0, 1):
        j = J("corner_r%d" % r, "C08_boundary.c", ["-DCORNER", "-DRES=%d" % r, "-DUPB=(1<<10)"], unwind=r + 2, us={"harness.0": 7}, unit_defs=UP7_DEFS, include_units=["vertex"], est=600 + 600 * r, mem="L", tier="thorough", timeout=3400, core=False,
              bound="all hexagon cells of res %d with hexagon neighbour x corners" % r)
        js += with_witness(j, tier="thorough") if r == 0 else [j]
    return js


# ------------------------------------------------------------------------------------------- C02
@prop("C02",
      functions=["latLngToCell", "_hex2dToCoordIJK", "_ijkToHex2d", "_ijkNormalize", "_faceIjkToH3 (C01/C03 jobs)"],
      bounds={"quick": "argument validation and glue: all doubles (any bit pattern) x all int resolutions x any projection result; planar rounding: grid of step 2^-8 on a 8x8-cell window at the origin and at (4096, -2048)",
              "thorough": "planar rounding windows at origins of magnitude 0, 2^6, 2^12, 2^18, 2^22 in all four quadrants, step 2^-10 at the origin"},
      outside="closest face, gnomonic projection, the cellToBoundary oracle and the angular tolerance, poles/antimeridian, 'always succeeds for finite input' (needs the geometric bound on the projected point): all trig - no bit-precise libm model. The lattice->index leg is C01's _faceIjkToH3 closure and C03's round trip (res 0-3).",
      assumptions=["ARGS job: _geoToFaceIjk and _faceIjkToH3 replaced by arbitrary-result stubs that assert their preconditions", "__builtin_isfinite modelled by __CPROVER_isfinited"],
      stubs=["_geoToFaceIjk, _faceIjkToH3 (ARGS only)"])
def c02(tier):
    js = []
    js += with_witness(J("args_glue", "C02_latlng.c", ["-DARGS"], unwind=3, est=10, stubs={"faceijk": ["_geoToFaceIjk"], "h3Index": ["_faceIjkToH3"]}, witness_expect=["non-finite", "finite"], bound="all doubles x all ints"))
    wins = [(0, 0, "quick"), (4096, -2048, "quick")]
    for m in (64, 4096, 262144, 4194304):
        for sx, sy in ((1, 1), (-1, 1), (1, -1), (-1, -1)):
            if (m * sx, m * sy) != (4096, -2048):
                wins.append((m * sx, m * sy + (sy * 3), "thorough"))
    for ox, oy, t in wins:
        nm = "hex2d_%s_%s" % (str(ox).replace("-", "m"), str(oy).replace("-", "m"))
        j = J(nm, "C02_latlng.c", ["-DHEX2D", "-DOX=%d" % ox, "-DOY=%d" % oy, "-DG=8", "-DWR=4"], unwind=3, est=200, tier=t, timeout=2400, units=["coordijk", "mathExtensions"], core=(t == "quick"),
              bound="window origin (%d,%d), +-4 units, step 2^-8" % (ox, oy))
        js += with_witness(j, tier=t) if (ox, oy) == (0, 0) else [j]
    js.append(J("hex2d_0_0_fine", "C02_latlng.c", ["-DHEX2D", "-DOX=0", "-DOY=0", "-DG=10", "-DWR=8"], unwind=3, est=400, tier="thorough", timeout=3000, units=["coordijk", "mathExtensions"], core=False, bound="window origin (0,0), +-8 units, step 2^-10"))
    return js


# ------------------------------------------------------------------------------------------- C06
CPL = dict({"compactCells.%d" % i: 9 for i in range(6)}, **{"compactCells.6": 3, "memcpy.0": 9, "memcpy.1": 9, "memcpy.2": 2, "memset.0": 9, "memset.1": 9, "memset.2": 2,
            "uncompactCells.0": 9, "uncompactCells.1": 9, "uncompactCellsSize.0": 9, "iterStepChild.0": 4, "cellToChildren.0": 9, "_ipow.0": 6, "harness.0": 16, "harness.1": 16, "harness.2": 16, "harness.3": 16, "harness.4": 16, "harness.5": 16, "harness.6": 16, "harness.7": 16, "harness.8": 16})


@prop("C06",
      functions=["compactCells", "uncompactCells", "uncompactCellsSize", "cellToChildren", "cellToParent", "isPentagon", "_hasChildAtRes", "iterInitParent", "iterStepChild"],
      bounds={"quick": "3 arbitrary distinct valid cells of res 1,5,15 in any order (no compaction possible): lossless round trip; uncompactCells capacity: 2 cells of res 0,7,14 x any capacity 0-14 x any target resolution <= res+1",
              "thorough": "5 distinct cells"},
      outside="every set that actually compacts (>= 6 cells): the hash-probe arithmetic over symbolic array indexes exhausts 30 GB already for one complete family of a symbolic parent (probed twice); more than one compaction round; sets of 10^5 cells. What is decided is the no-compaction path, the capacity/resolution clauses of uncompactCells and (C17/C12) the memory behaviour.",
      assumptions=["own loop models of memcpy/memset (CBMC's built-ins mishandle symbolic lengths)"],
      stubs=["memcpy, memset -> loop models"])
def c06(tier):
    js = []
    for r in (1, 5, 15):
        j = J("small3_r%d" % r, "C06_compact.c", ["-DSMALL", "-DN=3", "-DRES=%d" % r], unwind=17, us=CPL, est=40, mem="M", bound="3 distinct valid cells of res %d" % r)
        js += with_witness(j) if r == 5 else [j]
    js.append(J("small5_r3", "C06_compact.c", ["-DSMALL", "-DN=5", "-DRES=3"], unwind=17, us=CPL, est=200, mem="M", tier="thorough", timeout=2400, bound="5 distinct valid cells of res 3"))
    # complete child families were probed five times (symbolic sizes, constant sizes, fixed-size allocator shim; harness mode FAMILYC: CONCRETE parent with one
    # symbolic foreign cell, and concrete parent with only the rotation symbolic): 9-30 GB, no verdict - not registered. After the first round the number of
    # remaining cells is symbolic for CBMC, so every `parent % numRemainingHexes` of the later rounds is a 64-bit symbolic divider over symbolic heap indexes
    for r in (0, 7, 14):
        j = J("cap_r%d" % r, "C06_compact.c", ["-DCAP", "-DRES=%d" % r], unwind=17, us=CPL, est=60, mem="M", bound="2 valid cells of res %d, capacity 0-14, target res <= %d" % (r, r + 1))
        js += with_witness(j) if r == 7 else [j]
    return js


# ------------------------------------------------------------------------------------------- C14
@prop("C14",
      functions=["gridPathCellsSize", "gridPathCells", "cubeRound", "ijkToCube", "cubeToIjk", "gridDistance", "cellToLocalIjk", "localIjkToCell"],
      bounds={"quick": "glue: any start/end words, distance 0-3, any distance error, any failing step; end to end: a=b and every neighbour pair of res 0-1",
              "thorough": "end to end res 0-2 (res 3: no verdict in 3400 s twice, removed)"},
      outside="contiguity and end point for distance >= 2: the floating-point interpolation kernel (symbolic x symbolic multiplication; probed, no verdict) - the main clause of C14 is NOT decided beyond distance 1",
      assumptions=["glue: gridDistance, cellToLocalIjk, localIjkToCell replaced by arbitrary-result stubs", "L-UP7 checked model in the end-to-end jobs"],
      stubs=["gridDistance, cellToLocalIjk, localIjkToCell (GLUE)"])
def c14(tier):
    js = []
    js += with_witness(J("glue_path", "C14_path.c", ["-DGLUE"], unwind=7, est=20, stubs={"localij": ["gridDistance", "cellToLocalIjk", "localIjkToCell"]}, witness_expect=["distance error", "step error", "success"], bound="distance 0-3, any errors"))
    js += up7_lemma(10, checked=True)
    LL = {"cellToLocalIjk.%d" % i: 7 for i in range(6)}
    LL.update({"localIjkToCell.%d" % i: 7 for i in range(1, 7)})
    # component: the local IJ chart the path is interpolated in is consistent (same harness as C09's IJ round trip)
    js.append(J("chart_ijrt_r1", "C09_dist.c", ["-DIJRT", "-DRES=1", "-DIJB=64", "-DUPB=(1<<10)"], unwind=3, us=dict(LL, **{"localIjkToCell.0": 3}), unit_defs=UP7_DEFS_CHK, est=60, mem="M", bound="local IJ chart: all origins of res 1, |i|,|j| <= 64"))
    for r in (0, 1, 2):
        t = "quick" if r == 0 else "thorough"
        j = J("near_r%d" % r, "C14_path.c", ["-DNEAR", "-DRES=%d" % r, "-DUPB=(1<<10)"], unwind=r + 2, us=dict(LL, **{"localIjkToCell.0": r + 2, "gridPathCells.0": 3}), unit_defs=UP7_DEFS_CHK, est=300 + 300 * r, mem="M", tier=t, timeout=3400, core=(r <= 1),
              bound="a=b and all neighbour pairs of res %d" % r)
        js += with_witness(j, tier=t) if r == 0 else [j]
    return js


# ------------------------------------------------------------------------------------------- C18
KNOWN_STATICS = ["MAX_EDGE_LENGTH_RADS", "NORTH_POLE_CELLS", "SOUTH_POLE_CELLS", "RES0_BBOXES", "VALID_RANGE_BBOX", "MAX_SIZE_CELL_THRESHOLD", "H3ErrorDescriptions"]


@prop("C18",
      functions=["every library function (goto symbol table and goto instructions of all 19 units)", "cellToBBox", "baseCellNumToCell", "polygonToCellsExperimental", "iterStepPolygonCompact", "describeH3Error"],
      bounds="symbol scan: whole library. Frame jobs: cellToBBox and baseCellNumToCell on any 64-bit word / int; describeH3Error on any int (a frame job through polygonToCellsExperimental exhausted 18 GB and was removed)",
      outside="the step from 'no library-owned object is ever written' to 'all interleavings equal a sequential run' is an argument (no shared writable state => no data race, results depend only on arguments), not a query; libc's own thread safety is trusted; writes through pointers to the known statics are decided only for the calls listed",
      assumptions=["S-GEO stubs in the polygon frame job"],
      stubs=["cellToLatLng, cellToBoundary, latLngToCell, polygon predicates, cos (frame job)"])
def c18(tier):
    js = []
    js.append(J("symscan", "C18_frame.c", symscan=True, known_statics=KNOWN_STATICS, est=5, bound="all static-lifetime objects and all assignments of the library's goto program"))
    PS = {"h3Index": ["cellToLatLng", "cellToBoundary", "latLngToCell"], "polygon": ["pointInsidePolygon", "cellBoundaryInsidePolygon", "cellBoundaryCrossesPolygon"]}
    js += with_witness(J("frame_bbox", "C18_frame.c", ["-DPOLYFILL"], unwind=17, us={"harness.0": 123, "harness.1": 123, "harness.2": 123, "harness.3": 123, "harness.4": 123, "harness.5": 123, "harness.6": 123, "setH3Index.0": 3}, include_units=["polyfill"], stubs=PS, est=30, mem="M", bound="cellToBBox on any word"))
    js += with_witness(J("frame_errdesc", "C18_frame.c", ["-DERRDESC"], unwind=17, include_units=["h3Index"], est=10, bound="describeH3Error on any int"))
    return js


# ------------------------------------------------------------------------------------------- C16
@prop("C16",
      functions=["cellsToLinkedMultiPolygon", "destroyLinkedMultiPolygon", "destroyLinkedGeoLoop", "addNewLinkedPolygon", "addNewLinkedLoop", "addLinkedCoord", "normalizeMultiPolygon", "countLinkedLoops", "countLinkedPolygons"],
      bounds="memory clauses only. Call protocol of cellsToLinkedMultiPolygon: any component results. destroyLinkedMultiPolygon: every result shape with <= 2 polygons x <= 2 loops x <= 2 coordinates. normalizeMultiPolygon + destroy: 2-3 loops of any winding and any hole assignment",
      outside="the error path of h3SetToVertexGraph (heap-linked hash buckets: no verdict in 2400 s, probed twice); every geometric clause (components, orientation, closure, vertex provenance, area): needs real cell boundaries (trig) and point-in-loop tests (symbolic FP division); larger sets and shapes",
      assumptions=["allocator shim never fails in these jobs (linkedGeo/vertexGraph assert non-null); winding, bbox and hole assignment are arbitrary-result stubs in the normalize jobs"],
      stubs=["GLUE: h3SetToVertexGraph, _vertexGraphToLinkedGeo, destroyVertexGraph, normalizeMultiPolygon, destroyLinkedMultiPolygon"])
def c16(tier):
    js = []
    js += with_witness(J("glue_protocol", "C16_linked.c", ["-DGLUE"], unwind=3, est=5, witness_expect=["build error", "normalize error"],
                         stubs={"algos": ["h3SetToVertexGraph", "_vertexGraphToLinkedGeo"], "vertexGraph": ["destroyVertexGraph"], "linkedGeo": ["normalizeMultiPolygon", "destroyLinkedMultiPolygon"]}, bound="any component results"))
    LLp = {"destroyLinkedMultiPolygon.0": 4, "destroyLinkedMultiPolygon.1": 4, "destroyLinkedGeoLoop.0": 4, "harness.0": 25, "harness.1": 4, "harness.2": 5, "harness.3": 4, "harness.4": 4, "harness.5": 4, "vp_alloc_init.0": 17}
    js += with_witness(J("destroy_shapes", "C16_linked.c", ["-DDESTROY", "-DVP_MAXALLOC=16"], alloc=True, mode="debug", unwind=5, us=LLp, est=60, mem="M", timeout=1800, bound="<= 2 polygons x <= 2 loops x <= 2 coordinates"))
    NLp = dict(LLp, **{"normalizeMultiPolygon.0": 5, "normalizeMultiPolygon.1": 5, "countLinkedLoops.0": 5, "findPolygonForHole.0": 4, "harness.0": 17, "harness.1": 5, "harness.2": 5})
    for nl in (2, 3):
        j = J("normalize_%dloops" % nl, "C16_linked.c", ["-DNORMALIZE", "-DNL=%d" % nl, "-DVP_MAXALLOC=16"], alloc=True, mode="debug", unwind=6, us=NLp, stubs={"linkedGeo": ["isClockwiseLinkedGeoLoop", "bboxFromLinkedGeoLoop", "findPolygonForHole"]}, est=60, mem="M", timeout=1800,
              witness_expect=["normalize error", "normalize ok"], bound="%d loops of any winding, any hole assignment" % nl)
        js += with_witness(j) if nl == 2 else [j]
    # h3SetToVertexGraph error path (2 cells, <= 3 vertices, arbitrary hash; harness mode GRAPHERR is kept) gave no verdict in 2400 s twice - not registered
    return js
