"""Job tables: which CBMC queries decide which property, at which bound, in which tier."""
import copy

ALLRES = list(range(16))

# loops whose trip count does not depend on the resolution (bounds derived from the code, DESIGN A.3);
# every other loop is bounded by --unwind (res+2 or the per-job value). A too-small bound fails the
# unwinding assertion and the job is reported broken, never silently truncated.
FIXED = {
    "h3NeighborRotations.0": 7, "h3NeighborRotations.2": 7, "h3NeighborRotations.3": 7,
    "directionForNeighbor.0": 8, "_h3ToFaceIjk.0": 6, "_adjustOverageClassII.0": 7,
    "_adjustPentVertOverage.0": 6, "_unitIjkToDigit.0": 8, "_faceIjkToH3.1": 7, "_faceIjkToH3.2": 7,
    "vertexRotations.0": 14, "_baseCellToCCWrot60.0": 5, "_baseCellToCCWrot60.1": 5, "_baseCellToCCWrot60.2": 5,
    "_getBaseCellDirection.0": 8, "_faceIjkToVerts.0": 7, "_faceIjkPentToVerts.0": 6,
    "cellToVertexes.0": 7, "originToDirectedEdges.0": 7, "getPentagons.0": 123, "getRes0Cells.0": 123,
    "_geoToClosestFace.0": 21, "areNeighborCells.0": 8,
}


def J(name, src, defs=(), unwind=2, us=None, **kw):
    j = dict(name=name, src=src, defs=list(defs), unwind=unwind)
    u = dict(FIXED)
    if us:
        u.update(us)
    j["unwindset"] = {k: v for k, v in u.items() if kw.get("loops") is None or k.split(".")[0] in kw["loops"]}
    kw.pop("loops", None)
    j.update(kw)
    return j


def with_witness(j, **kw):
    w = copy.deepcopy(j)
    w["name"] = j["name"] + "_W"
    w["defs"] = list(j["defs"]) + ["-DWITNESS"]
    w["witness"] = True
    w.update(kw)
    return [j, w]


PROPS = {}
BUILDERS = {}


def prop(pid, **spec):
    PROPS[pid] = spec

    def deco(fn):
        BUILDERS[pid] = fn
        return fn
    return deco


def jobs_for(pid, tier):
    out = []
    for j in BUILDERS[pid](tier):
        t = j.pop("tier", "quick")
        if tier == "quick" and t != "quick":
            continue
        out.append(j)
    names = [j["name"] for j in out]
    assert len(names) == len(set(names)), "duplicate job names"
    return out


NBR_LOOPS = ["h3NeighborRotations", "directionForNeighbor"]

# ------------------------------------------------------------------------------------------- C01
@prop("C01",
      functions=["isValidCell", "isPentagon", "_isBaseCellPentagon", "_isValidCell_pent", "_isValidCell_const", "_hasAny7UptoRes", "_hasAll7AfterRes", "_firstOneIndex"],
      bounds="H1: none (all 2^64 words, all 128 base-cell numbers). Closure clauses: see the jobs listed in samples.",
      outside="closure of outputs produced through floating point (latLngToCell end to end) is only covered at the lattice level",
      assumptions=["CBMC 6.11 C semantics for x86_64 (LP64), SAT back end sound", "goto-cc preprocesses with the same -D flags as the CMake build"],
      stubs=[])
def c01(tier):
    js = []
    js += with_witness(J("valid_allwords", "C01_valid.c", unwind=17, est=5, bound="all 2^64 words"))
    return js


# ------------------------------------------------------------------------------------------- C05
@prop("C05",
      functions=["h3NeighborRotations", "directionForNeighbor", "_h3Rotate60ccw", "_h3Rotate60cw", "_h3RotatePent60ccw", "_h3LeadingNonZeroDigit", "_rotate60ccw", "_isBaseCellPentagon", "_baseCellIsCwOffset", "_isBaseCellPolarPentagon"],
      bounds={"quick": "neighbour step closure/distinctness/symmetry: all valid cells of resolutions 0-6 and 15 x 6 directions",
              "thorough": "all valid cells of all 16 resolutions x 6 directions; k=1 disks end to end at res 0-3"},
      outside="k>=2 beyond res 0, globe-wrapping disks, sufficiency of maxGridDiskSize at large k",
      assumptions=["cells are constructed as cell(r) + assume(isValidCell), justified by C01.H1"],
      stubs=[])
def c05(tier):
    js = []
    qres = [0, 1, 2, 3, 4, 5, 6, 15]
    for r in ALLRES:
        t = "quick" if r in qres else "thorough"
        for kind in ("CLOSURE", "DISTINCT", "SYMHEX", "SYMPENT"):
            j = J("nbr_%s_r%d" % (kind.lower(), r), "C05_nbr.c", ["-DRES=%d" % r, "-D" + kind], unwind=r + 2,
                  est=20 + 10 * r, tier=t, mem=("M" if kind == "SYMPENT" and r >= 3 else "S"), bound="all valid cells of resolution %d x all directions" % r, timeout=1800)
            if r in (0, 2, 5) or tier == "thorough":
                js += with_witness(j, tier=t)
            else:
                js.append(j)
    return js
