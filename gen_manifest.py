#!/usr/bin/env python3
"""Regenerates MANIFEST.json from jobs.py (which properties have a builder) and the texts below."""
import json, os, sys
sys.path.insert(0, os.path.dirname(os.path.abspath(__file__)))
import jobs

TECH = "CBMC 6.11 bounded symbolic execution of the real h3lib C units (goto-cc), SAT-decided; counterexamples replayed natively (ASan/UBSan)"

TEXT = {
    "C01": ("isValidCell is compared with an independent transcription of the documented layout on ALL 2^64 words in one SAT query (no bound); closure clauses are decided per producing function over all valid cells of a resolution (see C04, C05, C10, C13 evidence for the producers).",
            "CBMC's C semantics and SAT back end; the transcription in harness/common/spec.h is the reading of the documented layout."),
    "C03": ("counts and enumerations (getNumCells, getPentagons, getRes0Cells, res0CellCount, pentagonCount) decided for every int resolution and every valid cell of the listed resolutions; the cell<->lattice-address bijection _faceIjkToH3(_h3ToFaceIjk(h))==h for every valid cell of res 0-1 (quick) / 0-3 (thorough).",
            "the two trigonometric legs of latLngToCell(cellToLatLng(h)) are outside (no bit-precise libm model); L-UP7 integer model of _upAp7/_upAp7r, proved equal to the real FP code on the asserted range in the same run."),
    "C04": ("cellToParent / cellToChildrenSize / cellToCenterChild against a bit-level specification for every valid cell of every resolution and every int resolution argument; the children enumeration is decided for EVERY depth by an induction step over an arbitrary iterator state (init establishes the invariant, one step preserves it, yields the next valid child in increasing order with none skipped, and ends only after the largest child).",
            "iterator representation invariant stated over IterCellsChildren's fields; centre-point coincidence in lat/lng is outside (trig)."),
    "C05": ("one neighbour step from every valid cell of a resolution in every direction: closure (valid, same resolution, distinct from the cell, only pentagon/K fails), distinctness across directions, symmetry with an explicit back-direction witness (hexagon neighbour) or 5-way search (pentagon neighbour); k=1 disks through the public entry points end to end at low resolutions.",
            "k>=2 only at res 0 (thorough); larger k and globe-wrapping disks are outside; cells are cell(r)+assume(isValidCell) (C01)."),
    "C07": ("the integer traversal (nextCell is the exact pre-order successor skipping the sub-tree, every resolution), the bounding-box pruning algebra on all in-range doubles (boxes reported disjoint share no point; bboxFromGeoLoop contains its vertices), flag / resolution rejection before any geometry on all 2^32 flag words, and the empty polygon.",
            jobs.POLY_OUTSIDE if hasattr(jobs, "POLY_OUTSIDE") else ""),
    "C09": ("gridDistance: 0 on the diagonal, E_RES_MISMATCH for any valid cell of another resolution, exactly 1 for every neighbour pair (low resolutions quick, all thorough), symmetry and the Lipschitz half of the graph-distance characterisation for every pair of cells at res 0-2; IJ round trip at res 0-2 on a bounded window.",
            "coordinate-arithmetic identities only at small magnitudes (SAT limit); L-UP7 model in the IJ round trip."),
    "C10": ("isValidDirectedEdge equals the documented layout on ALL 2^64 words; edge (origin,direction) decodes to (origin, neighbour) for every valid cell and direction; cellsToDirectedEdge on every neighbour pair and on an arbitrary 64-bit destination (E_NOT_NEIGHBORS) at low resolutions; originToDirectedEdges at all resolutions; unit scaling of edgeLengthKm/M.",
            "boundary coordinates and edgeLengthRads itself are outside (trig)."),
    "C11": ("assume-guarantee: the real cellToVertex / isValidVertex / cellToVertexes verified against arbitrary component values (any 64-bit cell word), and the component contracts (neighbour step C05, vertex/direction bijection, centre-child minimality, corner triangle) verified on the real code over all cells of the stated resolutions.",
            "triangle contract and end-to-end run only at res 0-2 / 0-1; vertexToLatLng agreement and the 2N-4 count are outside."),
    "C13": ("per (parentRes, childRes) pair: childPosToCell on every valid parent and every int64 position (E_DOMAIN outside [0,size); valid child under the parent; cellToChildPos inverts it), cellToChildPos on every valid child (in range; childPosToCell inverts it), order (iterator successor has position+1, centre child 0, last child size-1), error codes for all int resolutions.",
            "quick: depth difference <= 2; thorough: FWD all 136 pairs, BWD/ORDER up to the depth that finishes under the cap (listed in evidence)."),
    "C15": ("the clauses decidable without cell geometry: capacity bound of polygonToCellsExperimental against an arbitrary iterator sequence (never writes at or beyond the capacity, E_MEMORY_BOUNDS), invalid flags -> E_OPTION_INVALID on all 2^32 words, soundness of the bounding-box pruning.",
            "which cells each mode returns, nesting and the size upper bound are NOT decided (trig + symbolic FP multiplication/division)."),
    "C20": ("h3ToString/stringToH3 on ALL 2^64 values: small buffers rejected untouched (size symbolic 0..16), exact lowercase unpadded form and round trip at sizes 17 and 32, every string of <= 6 arbitrary bytes for the parse clause.",
            "libc formatting is modelled (S-FMT interpretive model of the format string the real code passes), cross-checked against the sandbox libc on 1.1e6 seeded cases per run."),
}

TEXT.update({
    "C02": ("the clauses reachable without trigonometry: argument validation and result hand-over of latLngToCell for every double bit pattern and every int resolution (E_RES_DOMAIN / E_LATLNG_DOMAIN, no index written, geometry never reached on rejected input), and the planar rounding kernel _hex2dToCoordIJK: on stated grid windows the chosen hexagon contains the point (three-axis test) and cell centres round to their cell; lattice->index is C01/C03.",
            "containment against the cellToBoundary oracle, the angular tolerance, poles/antimeridian and 'always succeeds' are NOT decided (closest face + gnomonic projection are libm trig: no bit-precise model in any installed engine)."),
    "C06": ("lossless round trip compact->uncompact and exact sizes for every set of 3 (thorough 5) distinct valid cells in every order at several resolutions; uncompactCells capacity clause (never writes beyond the capacity, E_MEMORY_BOUNDS / E_RES_MISMATCH) for every pair of cells, every capacity 0-14.",
            "NOT decided: any set that actually compacts (>= 6 cells) - the hash-probe arithmetic over symbolic array indexes exhausted 30 GB even for one complete family of a symbolic parent; multi-round compaction. Own loop models of memcpy/memset."),
    "C08": ("the lattice / count / unit clauses: cellAreaKm2 = Rads2*R^2 and cellAreaM2 = Km2*10^6 bit-exactly with error propagation (glue); vertex counts of cellToBoundary (6, up to 8 at odd res; 5/10 for pentagons; never more than 10 written) with the projection stubbed, res 0-1; shared-corner lattice identity across an edge, res 0-1 (thorough).",
            "every statement about lat/lng values - orientation, 1e-12 coincidence across face projections, cellAreaRads2, the 4*pi sum - is NOT decided (trig; symbolic FP division in _v2dIntersect)."),
    "C12": ("one query per exported integer API on arbitrary 64-bit words / ints / int64 (invalid digits, modes, base cells 122-127 included), library built WITHOUT NDEBUG so every NEVER/ALWAYS/assert is a proof obligation, CBMC bounds / pointer / overflow / shift / conversion / division checks on, output buffers malloc'ed at exactly the documented size; documented domain codes asserted.",
            "digit-walking APIs are split by resolution field (0-2 quick, 0-5 and 15 thorough); k<=1; sets <= 4 words; APIs that reach trigonometry / the FP boundary code are not covered beyond their integer prefixes (C02/C03/C08/C19 jobs)."),
    "C14": ("gridPathCellsSize == gridDistance+1 with identical error behaviour, gridPathCells writes exactly out[0..distance] in order, stops at the failing step and never writes beyond the announced size (glue, any component results, distance <= 3); a=b and every neighbour pair succeed with the path {a} / {a,b} end to end (res 0 quick, 0-2 thorough).",
            "contiguity and end point for distance >= 2 are NOT decided: the floating-point interpolation kernel (symbolic x symbolic multiplication) gave no verdict on any back end."),
    "C16": ("the memory clauses only: call protocol of cellsToLinkedMultiPolygon (graph destroyed exactly once on every path, partial result released and error returned when normalisation fails), destroyLinkedMultiPolygon frees every block of every result shape up to 2x2x2, normalizeMultiPolygon followed by destroy leaks nothing and trips no internal assert for 2-3 loops.",
            "every geometric clause (components, orientation, closure, provenance, area) is NOT decided: needs real cell boundaries (trig) and point-in-loop tests (symbolic FP division)."),
    "C17": ("the allocator is the harness' H3_ALLOC_PREFIX shim whose failure schedule is a symbolic bit per allocation: one query covers every failure point of every input in the bound. Obligations: failure => E_MEMORY_ALLOC, nothing left allocated on any path, no double free (CBMC free preconditions), E_MEMORY_ALLOC only on failure, full result when nothing fails.",
            "compactCells 3 arbitrary words; areNeighborCells / gridDisk / gridDiskDistances k=1 on every cell of res 0-1 (0-3 thorough); experimental polyfill on triangles with 0-1 hole under over-approximated geometry, <= 3 geometry evaluations. Legacy polygonToCells (flood fill) is outside."),
    "C18": ("reduction: if no library-owned object is ever written, calls on caller-owned buffers cannot interfere. The driver lists every static-lifetime non-const object of the freshly compiled library from the goto symbol table and every assignment rooted in one (new statics, memo tables, scratch buffers appear automatically); the solver decides the frame condition (bit-identical snapshots) for the seven existing mutable statics across the calls that reference them.",
            "the step from the frame condition to 'all interleavings equal a sequential run' is an argument, not a query; libc's thread safety is trusted."),
    "C19": ("assume-guarantee: the real getIcosahedronFaces against arbitrary vertex faces (distinct faces in first-seen order, -1 padding, E_FAILED exactly on overflow, nothing beyond maxFaceCount slots, class II pentagon delegation); on the real lattice code every hexagon vertex lies on the centre's face or an adjacent one and a hexagon touches at most one other face (res 0-1 quick, 0-2 thorough).",
            "agreement with the nearest-face oracle in lat/lng is outside (trig); lattice components only at res 0-2 (coordinate arithmetic)."),
})

# later revisions of the claims (override the entries above)
TEXT["C07"] = ("the mechanisms that do not need cell geometry: the integer traversal (nextCell is the exact pre-order successor skipping the sub-tree, every resolution); ONE step of the compact polygon iterator from any mid-traversal state against an independently written hierarchical search, for all four containment modes and any (consistent) answers of the geometric predicates; the polygon-level bookkeeping of polygon.c (every loop paired with its own bounding box, inside the outer loop and outside every hole); the bounding-box pruning algebra on all in-range doubles; flag / resolution rejection before any geometry on all 2^32 flag words; the empty polygon.",
               "NOT decided: which cells are returned (cell centres: trig; empirically scaled cellToBBox; ray cast pointInside*: symbolic FP division - probed, no verdict), both size bounds, the legacy flood fill's hashing. Changes confined to the trig / estimate / ray-cast / FP-constant layer are not detected (seeded S29).")
TEXT["C15"] = (TEXT["C15"][0] + " Also the polygon-level bookkeeping (loops paired with their boxes, holes) and one step of the compact iterator for all four modes against an independent hierarchical search (same jobs as C07).", TEXT["C15"][1])
TEXT["C08"] = ("the lattice / count / bookkeeping / unit clauses: cellToBoundary = the full corner loop of the cell (semantic boundary stub), cellAreaRads2 = sum over ALL boundary segments of the triangle with the centre, cellAreaKm2 = Rads2*R^2 and M2 = Km2*10^6 with error propagation (glue); vertex counts of cellToBoundary with the projection stubbed and the shared-corner lattice identity across an edge at res 0-1 (thorough).", TEXT["C08"][1])
TEXT["C10"] = ("isValidDirectedEdge equals the documented layout on ALL 2^64 words; edge (origin,direction) decodes to (origin, neighbour) for every valid cell and direction; cellsToDirectedEdge on every neighbour pair and on an arbitrary 64-bit destination (E_NOT_NEIGHBORS) at low resolutions; originToDirectedEdges at all resolutions; directedEdgeToBoundary = the two consecutive corners starting at the edge's start vertex (semantic boundary stub); edgeLengthRads = sum over all consecutive boundary points; unit scaling of edgeLengthKm/M.",
               "boundary coordinates and the great-circle length of one segment are outside (trig).")
TEXT["C11"] = ("assume-guarantee: the real cellToVertex / isValidVertex / cellToVertexes / vertexToLatLng verified against arbitrary component values (any 64-bit cell word; vertexToLatLng returns the owner's n-th TOPOLOGICAL corner for any distortion pattern), and the component contracts (neighbour step C05, vertex/direction bijection, centre-child minimality, corner triangle) verified on the real code over all cells of the stated resolutions.", TEXT["C11"][1])
TEXT["C19"] = ("assume-guarantee: the real getIcosahedronFaces against arbitrary vertex faces with an exact-size heap buffer (distinct faces in first-seen order, -1 padding, E_FAILED exactly on overflow, no access beyond maxFaceCount slots, a Class II pentagon is evaluated on its centre child); on the real lattice code every hexagon vertex lies on the centre's face or an adjacent one and a hexagon touches at most one other face (res 0-1 quick, 0-2 thorough).", TEXT["C19"][1])
TEXT["C17"] = (TEXT["C17"][0], "compactCells 3 arbitrary words; areNeighborCells / gridDisk / gridDiskDistances k=1 on every valid cell of res 0-1 (0-3 thorough) and gridDisk on ANY 64-bit origin word (error paths of the fallback); experimental polyfill on triangles with 0-1 hole under over-approximated geometry, <= 3 geometry evaluations; legacy polygonToCells: allocation prologue / tracer errors / epilogue. The flood fill itself (one seed, 2-slot table) exhausted 30 GB and is outside, as is compactCells on 6 words (17 GB).")
TEXT["C14"] = (TEXT["C14"][0] + " Component: consistency of the local IJ chart the path is interpolated in (cellToLocalIj / localIjToCell round trip, res 1).", TEXT["C14"][1])

NA = {
}


def main():
    checks = []
    for pid in sorted(jobs.BUILDERS):
        if pid not in TEXT:
            continue
        text, note = TEXT[pid]
        checks.append({
            "property_id": pid,
            "quick_cmd": "python3 run_check.py %s --tier quick" % pid,
            "thorough_cmd": "python3 run_check.py %s --tier thorough" % pid,
            "evidence_file": "evidence/%s.json" % pid,
            "replay_cmd_template": "python3 run_check.py --replay {path}",
            "engine": "cbmc",
            "level_claimed": {"category": "model_checking", "text": text, "design_ref": "DESIGN.md section 4, " + pid},
            "level_note": note,
            "technique": TECH,
        })
    claimed = {c["property_id"] for c in checks}
    allp = [json.loads(l)["id"] for l in open(os.path.join(os.path.dirname(os.path.abspath(__file__)), "properties.jsonl"))]
    na = []
    for pid in allp:
        if pid not in claimed:
            na.append({"property_id": pid, "reason": NA.get(pid, "check not registered yet in this revision (work in progress; see DESIGN.md section 4)")})
    m = {
        "version": 1,
        "setup_cmd": "python3 run_check.py --selftest",
        "hooks": {"guard": "UBER_H3_VERIF", "enable": "goto-cc ... -DUBER_H3_VERIF (no hook code exists in /repo: statics are reached by #include, stubs by goto-instrument --remove-function-body, the allocator by H3_ALLOC_PREFIX)",
                  "baseline_off_cmd": "cmake -G Ninja -B /repo/_build /repo && cmake --build /repo/_build && ctest --test-dir /repo/_build -j8 --timeout 900",
                  "source_commits": [], "add_only": True},
        "engines": [{"name": "cbmc", "path": "/verif/run_check.py", "serves_properties": sorted(claimed), "kind_free_text": "driver: goto-cc build of /repo's working tree, CBMC 6.11 + CaDiCaL/kissat, native replay with gcc ASan/UBSan"}],
        "checks": checks,
        "not_applicable": na,
        "notes": "Every check regenerates its encoding from /repo's current sources. Exit 0 = all decided queries held (undecided ones are printed and listed in evidence, never counted); 1 = VIOLATION reproduced natively; 2 = machinery broken.",
    }
    json.dump(m, open(os.path.join(os.path.dirname(os.path.abspath(__file__)), "MANIFEST.json"), "w"), indent=1)
    print("claimed:", sorted(claimed), "na:", [x["property_id"] for x in na])


if __name__ == "__main__":
    main()
