// native replay runtime: inputs come from the file named by $VP_REPLAY_FILE
// (lines: name idx hexbits), assertions report instead of being proved.
#include <stdint.h>
#include <stdio.h>
#include <stdlib.h>
#include <string.h>
static struct { char name[64]; int idx; uint64_t v; } tab[4096];
static int ntab = -1, failures = 0;
static void load(void) {
    ntab = 0;
    const char *fn = getenv("VP_REPLAY_FILE");
    FILE *f = fn ? fopen(fn, "r") : NULL;
    if (!f) { fprintf(stderr, "REPLAY-ERROR: no replay file\n"); exit(4); }
    char nm[64]; int idx; unsigned long long v;
    while (ntab < 4096 && fscanf(f, "%63s %d %llx", nm, &idx, &v) == 3) {
        strcpy(tab[ntab].name, nm); tab[ntab].idx = idx; tab[ntab].v = v; ntab++;
    }
    fclose(f);
}
uint64_t vp_lookup(const char *name, int idx) {
    if (ntab < 0) load();
    for (int i = ntab - 1; i >= 0; i--)
        if (tab[i].idx == idx && !strcmp(tab[i].name, name)) return tab[i].v;
    fprintf(stderr, "REPLAY-MISSING: %s[%d] (using 0)\n", name, idx);
    return 0;
}
void vp_assert_fail(const char *msg) { printf("REPLAY-ASSERT-FAIL: %s\n", msg); fflush(stdout); failures++; }
void vp_assume_fail(const char *msg) {
    // assumptions are not retroactive: an assertion that failed before this point stands
    if (failures) { printf("REPLAY-RESULT: reproduced (%d assertion(s) failed before a later assumption cut the run)\n", failures); fflush(stdout); exit(1); }
    printf("REPLAY-ASSUME-FAIL: %s\n", msg); fflush(stdout); exit(3);
}
void harness(void);
int main(void) {
    harness();
    if (failures) { printf("REPLAY-RESULT: reproduced (%d assertion(s) failed)\n", failures); return 1; }
    printf("REPLAY-RESULT: not reproduced\n");
    return 0;
}
