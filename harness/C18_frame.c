// C18 frame condition, decided by the solver for the library's mutable static objects: after API calls on arbitrary
// arguments every such object is bit-identical to its snapshot (a write through any alias is a counterexample).
// The list of objects is cross-checked against the goto symbol table by the driver's static scan (job symscan).
#include "vp.h"
#include "h3api.h"
#if defined(POLYFILL)
#include "polyfill.c"     // gives access to the file-scope statics; unit dropped from the link set
// S-GEO: arbitrary geometry
H3Error H3_EXPORT(cellToLatLng)(H3Index h, LatLng *g) { if (vp_next_bool()) return E_CELL_INVALID; g->lat = vp_next_double(); g->lng = vp_next_double(); return E_SUCCESS; }
H3Error H3_EXPORT(cellToBoundary)(H3Index h, CellBoundary *cb) { if (vp_next_bool()) return E_CELL_INVALID; int n = vp_next_int(); __CPROVER_assume(n >= 0 && n <= 10); cb->numVerts = n; return E_SUCCESS; }
H3Error H3_EXPORT(latLngToCell)(const LatLng *g, int res, H3Index *out) { if (vp_next_bool()) return E_FAILED; *out = vp_next(); return E_SUCCESS; }
bool pointInsidePolygon(const GeoPolygon *p, const BBox *b, const LatLng *c) { return vp_next_bool(); }
bool cellBoundaryInsidePolygon(const GeoPolygon *p, const BBox *b, const CellBoundary *cb, const BBox *bb) { return vp_next_bool(); }
bool cellBoundaryCrossesPolygon(const GeoPolygon *p, const BBox *b, const CellBoundary *cb, const BBox *bb) { return vp_next_bool(); }
double cos(double x) { return vp_next_double(); }
uint64_t in_h; int in_b, in_res, in_flags;
void harness(void) {
    // snapshot
    double s_edge[16]; H3Index s_np[16], s_sp[16]; BBox s_bb[NUM_BASE_CELLS]; BBox s_valid = VALID_RANGE_BBOX; int s_thr = MAX_SIZE_CELL_THRESHOLD;
    for (int i = 0; i < 16; i++) { s_edge[i] = MAX_EDGE_LENGTH_RADS[i]; s_np[i] = NORTH_POLE_CELLS[i]; s_sp[i] = SOUTH_POLE_CELLS[i]; }
    for (int i = 0; i < NUM_BASE_CELLS; i++) s_bb[i] = RES0_BBOXES[i];
    in_h = vp_u64("in_h"); in_b = vp_int("in_b") & 1; in_res = vp_int("in_res"); in_flags = vp_int("in_flags");
    __CPROVER_assume(in_res <= 1);
    VP_EXCLUDE();
    BBox out;
    (void)cellToBBox(in_h, &out, in_b);
    (void)baseCellNumToCell(in_res);
    LatLng v[3]; for (int i = 0; i < 3; i++) { v[i].lat = vp_next_double(); v[i].lng = vp_next_double(); }
    GeoPolygon poly = {.geoloop = {.numVerts = 3, .verts = v}, .numHoles = 0, .holes = 0};
    H3Index cells[2]; int64_t sz = 0;
#ifdef WITH_ITER
    (void)H3_EXPORT(polygonToCellsExperimental)(&poly, in_res, (uint32_t)in_flags, 1, cells);
#endif
    VP_WITNESS("frame");
    for (int i = 0; i < 16; i++) __CPROVER_assert(s_edge[i] == MAX_EDGE_LENGTH_RADS[i] && s_np[i] == NORTH_POLE_CELLS[i] && s_sp[i] == SOUTH_POLE_CELLS[i], "per-resolution tables unchanged");
    for (int i = 0; i < NUM_BASE_CELLS; i++) __CPROVER_assert(s_bb[i].north == RES0_BBOXES[i].north && s_bb[i].south == RES0_BBOXES[i].south && s_bb[i].east == RES0_BBOXES[i].east && s_bb[i].west == RES0_BBOXES[i].west, "RES0_BBOXES unchanged");
    __CPROVER_assert(s_valid.north == VALID_RANGE_BBOX.north && s_valid.south == VALID_RANGE_BBOX.south && s_valid.east == VALID_RANGE_BBOX.east && s_valid.west == VALID_RANGE_BBOX.west && s_thr == MAX_SIZE_CELL_THRESHOLD, "VALID_RANGE_BBOX and MAX_SIZE_CELL_THRESHOLD unchanged");
}
#elif defined(ERRDESC)
#include "h3Index.c"
int in_e;
void harness(void) {
    char *snap[16];
    for (int i = 0; i < 16; i++) snap[i] = H3ErrorDescriptions[i];
    in_e = vp_int("in_e");
    VP_EXCLUDE();
    const char *s = H3_EXPORT(describeH3Error)((H3Error)in_e);
    VP_WITNESS("errdesc");
    __CPROVER_assert(s != 0, "describeH3Error total");
    for (int i = 0; i < 16; i++) __CPROVER_assert(snap[i] == H3ErrorDescriptions[i], "H3ErrorDescriptions unchanged");
}
#endif
