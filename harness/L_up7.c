// L-UP7 lemma: the real floating-point _upAp7 / _upAp7r / _upAp7Checked / _upAp7rChecked equal nearest-integer
// division by 7 followed by _ijkNormalize, for all |i|,|j|,|k| <= B (non-negative for the checked variants).
#include "vp.h"
#include "coordijk.h"
int in_i, in_j, in_k;
#ifndef B
#define B (1 << 12)
#endif
static int rdiv7(long long n) {  // nearest integer to n/7 (7 is odd: no ties)
    long long q = n / 7, r = n % 7;
    if (r >= 4) q += 1; else if (r <= -4) q -= 1;
    return (int)q;
}
void harness(void) {
    CoordIJK c;
    c.i = in_i = vp_int("in_i"); c.j = in_j = vp_int("in_j"); c.k = in_k = vp_int("in_k");
#ifdef CHECKED
    __CPROVER_assume(c.i >= 0 && c.i <= B && c.j >= 0 && c.j <= B && c.k >= 0 && c.k <= B);
#else
    __CPROVER_assume(c.i >= -B && c.i <= B && c.j >= -B && c.j <= B && c.k >= -B && c.k <= B);
#endif
    VP_EXCLUDE();
    long long i = (long long)c.i - c.k, j = (long long)c.j - c.k;
    CoordIJK r;
    H3Error e = E_SUCCESS;
#ifdef R
    r.i = rdiv7(2 * i + j); r.j = rdiv7(3 * j - i); r.k = 0; _ijkNormalize(&r);
#ifdef CHECKED
    e = _upAp7rChecked(&c);
#else
    _upAp7r(&c);
#endif
#else
    r.i = rdiv7(3 * i - j); r.j = rdiv7(i + 2 * j); r.k = 0; _ijkNormalize(&r);
#ifdef CHECKED
    e = _upAp7Checked(&c);
#else
    _upAp7(&c);
#endif
#endif
    VP_WITNESS("lemma");
    __CPROVER_assert(e == E_SUCCESS && c.i == r.i && c.j == r.j && c.k == r.k, "aperture-7 parent == nearest-integer division reference");
}
