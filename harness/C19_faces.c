// C19 getIcosahedronFaces. Modes GLUE (components stubbed), VERTFACE (components on the real code), E2E
#include "vp.h"
#include "spec.h"
#include "h3Index.h"
#include "faceijk.h"
#include "baseCells.h"
#include <stdlib.h>
#if defined(GLUE)
uint64_t in_h; int in_pent, in_err; int s_face[6];
static int nadj, nconv, nverts;
static H3Index CHILD;
int H3_EXPORT(isPentagon)(H3Index h) { __CPROVER_assert(h == in_h || h == CHILD, "isPentagon on the cell (or its centre child)"); return in_pent; }
H3Error _h3ToFaceIjk(H3Index h, FaceIJK *f) { nconv++;
    // a Class II pentagon has all its vertices ON icosahedron edges, so the vertex-based method must run on its centre child
    __CPROVER_assert(h == CHILD, "faces are derived from the cell itself, for a Class II pentagon from its centre child"); f->face = vp_next_int() & 15; f->coord.i = vp_next_int() & 0xffff; f->coord.j = vp_next_int() & 0xffff; f->coord.k = 0; return (H3Error)in_err; }
void _faceIjkToVerts(FaceIJK *f, int *res, FaceIJK *v) { __CPROVER_assert(!in_pent, "hexagon vertex function only for hexagons"); nverts++; }
void _faceIjkPentToVerts(FaceIJK *f, int *res, FaceIJK *v) { __CPROVER_assert(in_pent, "pentagon vertex function only for pentagons"); nverts++; }
Overage _adjustOverageClassII(FaceIJK *f, int res, int pentLeading4, int substrate) { __CPROVER_assert(!in_pent && substrate == 1 && pentLeading4 == 0 && nadj < 6, "hexagon: one substrate overage adjustment per vertex"); f->face = s_face[nadj++]; return NO_OVERAGE; }
Overage _adjustPentVertOverage(FaceIJK *f, int res) { __CPROVER_assert(in_pent && nadj < 5, "pentagon: one adjustment per vertex"); f->face = s_face[nadj++]; return NO_OVERAGE; }
void harness(void) {
    in_h = vp_u64("in_h"); in_err = vp_int("in_err");
    // the pentagon flag is what isPentagon computes on this word (pentagon base cell, all used digits 0): an implementation that
    // derives it by other means than calling isPentagon must agree with it
    { int bc = (int)((in_h >> 45) & 127), r0 = (int)((in_h >> 52) & 15), allz = 1;
      for (int r = 1; r <= 15; r++) if (r <= r0 && ((in_h >> (3 * (15 - r))) & 7)) allz = 0;
      in_pent = spec_is_pent_bc(bc) && allz; }
    __CPROVER_assume(in_err >= 0 && in_err <= 15);
    for (int i = 0; i < 6; i++) { s_face[i] = vp_int_i("s_face", i); __CPROVER_assume(s_face[i] >= 0 && s_face[i] < 20); }
    VP_EXCLUDE();
    int res = H3_GET_RESOLUTION(in_h);
    int delegated = in_pent && (res % 2 == 0);
    __CPROVER_assume(!(delegated && res == 15));
    CHILD = in_h;
    if (delegated) { CHILD = in_h; H3_SET_RESOLUTION(CHILD, res + 1); H3_SET_INDEX_DIGIT(CHILD, res + 1, 0); }
    // output buffer of exactly maxFaceCount ints on the heap: any access beyond it is a bounds violation
    int mx = in_pent ? 5 : 2, nv = in_pent ? 5 : 6;
    int *buf = in_pent ? malloc(5 * sizeof(int)) : malloc(2 * sizeof(int));
    __CPROVER_assume(buf != 0);
    for (int i = 0; i < 5; i++) if (i < mx) buf[i] = -7;
    H3Error e = H3_EXPORT(getIcosahedronFaces)(in_h, buf);
    int out[7];
    for (int i = 0; i < 7; i++) out[i] = -7;
    for (int i = 0; i < 5; i++) if (i < mx) out[1 + i] = buf[i];
    if (in_err) { __CPROVER_assert(e == (H3Error)in_err, "conversion error is passed through"); return; }
    // reference: distinct faces in first-seen order
    int ref[6], nref = 0, overflow = 0;
    for (int i = 0; i < 6; i++) if (i < nv && !overflow) {
        int seen = 0;
        for (int j = 0; j < 6; j++) if (j < nref && ref[j] == s_face[i]) seen = 1;
        if (!seen) { if (nref == mx) overflow = 1; else ref[nref++] = s_face[i]; }
    }
    if (overflow) { VP_WITNESS("overflow"); __CPROVER_assert(e == E_FAILED, "more distinct faces than maxFaceCount -> E_FAILED"); }
    else {
        VP_WITNESS("ok");
        __CPROVER_assert(e == E_SUCCESS, "succeeds");
        for (int i = 0; i < 5; i++) if (i < mx) __CPROVER_assert(out[1 + i] == (i < nref ? ref[i] : -1), "slots = the distinct vertex faces, unused slots -1");
        __CPROVER_assert(nconv == 1 && nverts == 1 && nadj == nv, "one conversion, every vertex adjusted once");
    }
}
#elif defined(VERTFACE)
#include "mkcell.h"
#include "up7model.h"
#include "faceijk.c"   // for the static faceNeighbors table (unit dropped from the link set)
H3Index in_h; int in_v1, in_v2;
void harness(void) {
    H3Index h = in_h = mkcell(RES, "in_h");
    __CPROVER_assume(!spec_is_pentagon(h));
    int v1 = in_v1 = vp_int("in_v1"), v2 = in_v2 = vp_int("in_v2");
    __CPROVER_assume(v1 >= 0 && v1 < 6 && v2 >= 0 && v2 < 6);
    VP_EXCLUDE();
    FaceIJK f; _h3ToFaceIjk(h, &f);
    int centre = f.face, r = RES;
    FaceIJK vs[6]; _faceIjkToVerts(&f, &r, vs);
    FaceIJK a = vs[v1], b = vs[v2];
    _adjustOverageClassII(&a, r, 0, 1); _adjustOverageClassII(&b, r, 0, 1);
    VP_WITNESS("vertface");
    __CPROVER_assert(centre >= 0 && centre < 20 && a.face >= 0 && a.face < 20, "faces in range");
    __CPROVER_assert(a.face == centre || a.face == faceNeighbors[centre][1].face || a.face == faceNeighbors[centre][2].face || a.face == faceNeighbors[centre][3].face, "a vertex lies on the centre's face or on an adjacent face");
    __CPROVER_assert(a.face == centre || b.face == centre || a.face == b.face, "a hexagon touches at most one face besides its centre's (maxFaceCount 2 suffices)");
}
#elif defined(E2E)
#include "mkcell.h"
#include "up7model.h"
H3Index in_h;
void harness(void) {
    H3Index h = in_h = mkcell(RES, "in_h");
    VP_EXCLUDE();
    int out[7]; for (int i = 0; i < 7; i++) out[i] = -7;
    int mx = 0; H3_EXPORT(maxFaceCount)(h, &mx);
    int pent = spec_is_pentagon(h);
    __CPROVER_assert(mx == (pent ? 5 : 2), "maxFaceCount: 5 for a pentagon, 2 for a hexagon");
    H3Error e = H3_EXPORT(getIcosahedronFaces)(h, out + 1);
    __CPROVER_assert(e == E_SUCCESS, "succeeds on every valid cell");
    int cnt = 0;
    for (int i = 0; i < 5; i++) if (i < mx) { __CPROVER_assert(out[1 + i] >= -1 && out[1 + i] < 20, "slot in range"); if (out[1 + i] >= 0) { cnt++; for (int j = 0; j < i; j++) __CPROVER_assert(out[1 + j] != out[1 + i], "distinct faces"); } }
    for (int i = 0; i < 6; i++) if (i >= mx) __CPROVER_assert(out[1 + i] == -7, "no write beyond maxFaceCount slots");
    VP_WITNESS("e2e");
    __CPROVER_assert(pent ? cnt == 5 : (cnt == 1 || cnt == 2), "a pentagon reports five faces, a hexagon one or two");
    FaceIJK f; _h3ToFaceIjk(h, &f);
    int found = 0; for (int i = 0; i < 5; i++) if (i < mx && out[1 + i] == f.face) found = 1;
    if (!pent) __CPROVER_assert(found, "the face of the cell centre is reported");
}
#endif
