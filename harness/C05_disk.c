// C05.H4-H6: k=1 disks through the public entry points and areNeighborCells, end to end on the real code
#include "mkcell.h"
#include "spec.h"
#include "baseCells.h"
#include "algos.h"
#include "memmodel.h"
H3Index in_h, in_b; int in_d;
static int nb_of(H3Index h, H3Index *nb) {   // the neighbour set by single steps (C05.H1-H3 make this the graph)
    int n = 0;
    for (int d = 1; d <= 6; d++) {
        if (spec_is_pentagon(h) && d == 1) continue;
        int rot = 0; H3Index o = 0;
        if (h3NeighborRotations(h, (Direction)d, &rot, &o) == E_SUCCESS) nb[n++] = o;
    }
    return n;
}
void harness(void) {
#if defined(K1)
    H3Index h = in_h = mkcell(RES, "in_h");
    VP_EXCLUDE();
    H3Index nb[6]; int nnb = nb_of(h, nb);
    __CPROVER_assert(nnb == (spec_is_pentagon(h) ? 5 : 6), "six neighbours (five for a pentagon)");
    H3Index out[9]; int dist[9];
    for (int i = 0; i < 9; i++) { out[i] = 0; dist[i] = 0; }
    out[0] = out[8] = UINT64_C(0x5a5a5a5a5a5a5a5a); dist[0] = dist[8] = 0x5a5a5a5a;
    H3Error e;
    int unsafe = 0;
#if FN == 0
    e = H3_EXPORT(gridDisk)(h, 1, out + 1);
#elif FN == 1
    e = H3_EXPORT(gridDiskDistances)(h, 1, out + 1, dist + 1);
#elif FN == 2
    e = H3_EXPORT(gridDiskDistancesSafe)(h, 1, out + 1, dist + 1);
#elif FN == 3
    e = H3_EXPORT(gridDiskDistancesUnsafe)(h, 1, out + 1, dist + 1); unsafe = 1;
#elif FN == 4
    e = H3_EXPORT(gridRingUnsafe)(h, 1, out + 1); unsafe = 2;
#endif
    __CPROVER_assert(out[0] == UINT64_C(0x5a5a5a5a5a5a5a5a) && out[8] == UINT64_C(0x5a5a5a5a5a5a5a5a), "within maxGridDiskSize(1) = 7 slots");
    if (unsafe && e != E_SUCCESS) { VP_WITNESS("unsafe error"); return; }   // unsafe variants may report an error instead
    __CPROVER_assert(e == E_SUCCESS, "safe disk functions succeed on every valid cell");
    int cnt = 0, sawOrigin = 0;
    for (int i = 0; i < 7; i++) if (out[1 + i]) {
        cnt++;
        int found = (out[1 + i] == h);
        if (out[1 + i] == h) sawOrigin = 1;
        for (int j = 0; j < 6; j++) if (j < nnb && nb[j] == out[1 + i]) found = 1;
        __CPROVER_assert(found, "every output is the origin or one of its neighbours");
#if FN == 1 || FN == 2 || FN == 3
        __CPROVER_assert(dist[1 + i] == (out[1 + i] == h ? 0 : 1), "exact step count");
#endif
        for (int j = 0; j < i; j++) __CPROVER_assert(out[1 + j] != out[1 + i], "no duplicates");
    }
    VP_WITNESS("disk");
    if (unsafe == 2) __CPROVER_assert(cnt == nnb && !sawOrigin, "ring 1 = exactly the neighbours");
    else __CPROVER_assert(cnt == nnb + 1 && sawOrigin, "disk 1 = origin and all neighbours");
    if (unsafe == 1) __CPROVER_assert(out[1] == h, "unsafe disk in ring order: origin first");
#elif defined(K2)
    // k = 2 through gridDiskDistances: exactly the cells within two neighbour steps, each with its exact step count
    H3Index h = in_h = mkcell(RES, "in_h");
    VP_EXCLUDE();
    H3Index n1[6]; int c1 = nb_of(h, n1);
    H3Index n2[36]; int c2 = 0;
    for (int i = 0; i < 6; i++) if (i < c1) { H3Index t[6]; int ct = nb_of(n1[i], t); for (int j = 0; j < 6; j++) if (j < ct) n2[c2++] = t[j]; }
    H3Index out[21]; int dist[21];
    for (int i = 0; i < 21; i++) { out[i] = 0; dist[i] = 0; }
    out[0] = out[20] = UINT64_C(0x5a5a5a5a5a5a5a5a);
    H3Error e = H3_EXPORT(gridDiskDistances)(h, 2, out + 1, dist + 1);
    __CPROVER_assert(e == E_SUCCESS, "gridDiskDistances k=2 succeeds");
    __CPROVER_assert(out[0] == UINT64_C(0x5a5a5a5a5a5a5a5a) && out[20] == UINT64_C(0x5a5a5a5a5a5a5a5a), "within maxGridDiskSize(2) = 19 slots");
    for (int i = 0; i < 19; i++) if (out[1 + i]) {
        H3Index c = out[1 + i];
        int d = 3;
        if (c == h) d = 0;
        else { for (int j = 0; j < 6; j++) if (j < c1 && n1[j] == c) d = 1; if (d == 3) for (int j = 0; j < 36; j++) if (j < c2 && n2[j] == c) d = 2; }
        __CPROVER_assert(d <= 2 && dist[1 + i] == d, "every output is within two steps and carries its exact step count");
        for (int j = 0; j < i; j++) __CPROVER_assert(out[1 + j] != c, "no duplicates");
    }
    // completeness: every cell within two steps is present
    int k = vp_int("in_d"); in_d = k;
    __CPROVER_assume(k >= 0 && k < 36);
    if (k < c2) { int found = 0; for (int i = 0; i < 19; i++) if (out[1 + i] == n2[k]) found = 1; VP_WITNESS("k2"); __CPROVER_assert(found, "every cell reachable in two steps is in the disk"); }
#elif defined(DISKS2)
    // gridDisksUnsafe on two origins, k=1: either an error, or each 7-slot segment is exactly that origin's disk, origin first
    H3Index hs[2]; hs[0] = in_h = mkcell(RES, "in_h"); hs[1] = in_b = mkcell(RES, "in_b");
    VP_EXCLUDE();
    H3Index out[16];
    for (int i = 0; i < 16; i++) out[i] = 0;
    out[0] = out[15] = UINT64_C(0x5a5a5a5a5a5a5a5a);
    H3Error e = H3_EXPORT(gridDisksUnsafe)(hs, 2, 1, out + 1);
    __CPROVER_assert(out[0] == UINT64_C(0x5a5a5a5a5a5a5a5a) && out[15] == UINT64_C(0x5a5a5a5a5a5a5a5a), "within 2 * maxGridDiskSize(1) slots");
    if (e != E_SUCCESS) { VP_WITNESS("disks error"); return; }
    VP_WITNESS("disks ok");
    for (int s = 0; s < 2; s++) {
        H3Index nb[6]; int nnb = nb_of(hs[s], nb);
        __CPROVER_assert(out[1 + 7 * s] == hs[s], "segment starts with its origin");
        int cnt = 0;
        for (int i = 1; i < 7; i++) {
            H3Index c = out[1 + 7 * s + i];
            int found = 0;
            for (int j = 0; j < 6; j++) if (j < nnb && nb[j] == c) found = 1;
            __CPROVER_assert(found, "a successful gridDisksUnsafe returns exactly each origin's disk");
            for (int j = 1; j < i; j++) __CPROVER_assert(out[1 + 7 * s + j] != c, "no duplicates in a segment");
        }
    }
#elif defined(ARENBR)
    // areNeighborCells(a,b) for an arbitrary valid same-resolution b: true exactly for the neighbour pairs
    H3Index a = in_h = mkcell(RES, "in_h"), b = in_b = mkcell(RES, "in_b");
    VP_EXCLUDE();
    H3Index nb[6]; int nnb = nb_of(a, nb);
    int isnb = 0;
    for (int j = 0; j < 6; j++) if (j < nnb && nb[j] == b) isnb = 1;
    int out = -1;
    H3Error e = H3_EXPORT(areNeighborCells)(a, b, &out);
    __CPROVER_assert(e == E_SUCCESS, "succeeds on valid cells of one resolution");
    if (isnb) VP_WITNESS("neighbours"); else VP_WITNESS("not neighbours");
    __CPROVER_assert(out == (isnb && a != b), "areNeighborCells is true exactly for neighbour pairs");
#elif defined(ARENBR_ERR)
    H3Index a = in_h = mkcell(RES, "in_h"); uint64_t w = in_b = vp_u64("in_b");
    VP_EXCLUDE();
    int out = -1;
    H3Error e = H3_EXPORT(areNeighborCells)(a, w, &out);
    if (((w >> 59) & 15) != 1) __CPROVER_assert(e == E_CELL_INVALID, "mode != 1 -> E_CELL_INVALID");
    else if (w != a && (int)((w >> 52) & 15) != RES) { VP_WITNESS("res mismatch"); __CPROVER_assert(e == E_RES_MISMATCH, "differing resolutions -> E_RES_MISMATCH"); }
    else if (w == a) __CPROVER_assert(e == E_SUCCESS && out == 0, "a cell is not its own neighbour");
#endif
}
