// Summation glue (C10 edge length, C08 cell area): the radians functions with the boundary producer and the per-segment
// metric replaced by stubs. edgeLengthRads must add the great-circle length of EVERY consecutive pair of the edge's
// boundary points (2 or 3 points); cellAreaRads2 must add the triangle (v_i, v_i+1, centre) for EVERY boundary segment,
// closing the loop. Per-segment values are k * 2^-20 (small integers scaled), so sums are exact and order-independent.
#include "vp.h"
#include "h3api.h"
#include "h3Index.h"
#include "latLng.h"
#ifndef KMAX
#define KMAX 4096
#endif
#ifndef MAXN
#define MAXN 10
#endif
uint64_t in_h; int in_n, in_err, in_k[10];
static CellBoundary theB;
static double seg(int i) { return (double)in_k[i] * 0x1p-20; }
#ifdef EDGE
H3Error H3_EXPORT(directedEdgeToBoundary)(H3Index e, CellBoundary *cb) {
    __CPROVER_assert(e == in_h, "edge handed on");
    if (in_err) return (H3Error)in_err;
    cb->numVerts = in_n;
    for (int i = 0; i < 3; i++) { cb->verts[i].lat = (double)i; cb->verts[i].lng = 7.0; }
    return E_SUCCESS;
}
double H3_EXPORT(greatCircleDistanceRads)(const LatLng *a, const LatLng *b) {
    // identify the pair by the tags the boundary stub wrote
    int i = (int)a->lat, j = (int)b->lat;
    __CPROVER_assert(a->lng == 7.0 && b->lng == 7.0 && i >= 0 && i < 3 && j >= 0 && j < 3, "distance is taken between boundary points of the edge");
    __CPROVER_assert(j == i + 1 || i == j + 1, "only consecutive boundary points are measured");
    return seg(i < j ? i : j);
}
#else
H3Error H3_EXPORT(cellToLatLng)(H3Index c, LatLng *g) { __CPROVER_assert(c == in_h, "cell handed on"); if (in_err) return (H3Error)in_err; g->lat = 100.0; g->lng = 7.0; return E_SUCCESS; }
H3Error H3_EXPORT(cellToBoundary)(H3Index c, CellBoundary *cb) {
    __CPROVER_assert(c == in_h, "cell handed on");
    cb->numVerts = in_n;
    for (int i = 0; i < 10; i++) { cb->verts[i].lat = (double)i; cb->verts[i].lng = 7.0; }
    return E_SUCCESS;
}
double triangleArea(const LatLng *a, const LatLng *b, const LatLng *c) {
    int i = (int)a->lat, j = (int)b->lat;
    __CPROVER_assert(c->lat == 100.0 && a->lng == 7.0 && b->lng == 7.0, "triangles are spanned with the cell centre");
    __CPROVER_assert(i >= 0 && i < in_n && j == (i + 1) % in_n, "each triangle uses one boundary segment, the last one closing the loop");
    return seg(i);
}
#endif
void harness(void) {
    in_h = vp_u64("in_h"); in_n = vp_int("in_n"); in_err = vp_int("in_err");
    __CPROVER_assume(in_err >= 0 && in_err <= 15);
    for (int i = 0; i < 10; i++) { in_k[i] = vp_int_i("in_k", i); __CPROVER_assume(in_k[i] >= 1 && in_k[i] <= KMAX); }
    VP_EXCLUDE();
    double out = -5.0;
#ifdef EDGE
    __CPROVER_assume(in_n == 2 || in_n == 3);
    H3Error e = H3_EXPORT(edgeLengthRads)(in_h, &out);
    if (in_err) { __CPROVER_assert(e == (H3Error)in_err, "boundary error passed through"); return; }
    int want = in_k[0] + (in_n == 3 ? in_k[1] : 0);
    if (in_n == 3) VP_WITNESS("three points");
    __CPROVER_assert(e == E_SUCCESS && out == (double)want * 0x1p-20, "edge length = sum of the great-circle lengths of all consecutive boundary points");
#else
    __CPROVER_assume(in_n >= 5 && in_n <= MAXN);
    H3Error e = H3_EXPORT(cellAreaRads2)(in_h, &out);
    if (in_err) { __CPROVER_assert(e == (H3Error)in_err && out == -5.0, "centre error passed through, no area written"); return; }
    int want = 0;
    for (int i = 0; i < 10; i++) if (i < in_n) want += in_k[i];
    VP_WITNESS("area");
    __CPROVER_assert(e == E_SUCCESS && out == (double)want * 0x1p-20, "cell area = sum over all boundary segments of the triangle with the centre");
#endif
}
