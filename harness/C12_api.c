// C12: memory safety and totality of API calls on arbitrary arguments. Built WITHOUT NDEBUG: every assert /
// NEVER / ALWAYS in the library is a proof obligation; CBMC's bounds, pointer, overflow, shift, conversion and
// division checks are on. Output buffers are malloc'ed at exactly the documented size.
#include "vp.h"
#include "h3api.h"
#include "h3Index.h"
#include "algos.h"
#include "vertex.h"
#include <stdlib.h>
#if defined(GCDIST)
#include "trig.h"
#endif
#if defined(VERTEXAPI)
#include "up7model.h"
#endif
uint64_t in_h, in_h2, in_w[4]; int in_i1, in_i2, in_k; int64_t in_l1; double in_d1, in_d2, in_d3, in_d4; uint32_t in_u;
#define CODE(e) ((e) >= 0 && (e) <= 15)
#ifdef RES
static uint64_t word_at_res(const char *n) { return (vp_u64(n) & ~(UINT64_C(15) << 52)) | ((uint64_t)RES << 52); }
#endif
static void *xmalloc(size_t n) { void *p = malloc(n ? n : 1); __CPROVER_assume(p != 0); return p; }
void harness(void) {
#if defined(CHEAP)
    uint64_t h = in_h = vp_u64("in_h"); int i = in_i1 = vp_int("in_i1"); double d = in_d1 = vp_double("in_d1");
    VP_EXCLUDE();
    const char *s = H3_EXPORT(describeH3Error)((H3Error)in_i1);
    __CPROVER_assert(s != 0 && s[0] != 0, "describeH3Error is total");
    int r = H3_EXPORT(getResolution)(h); __CPROVER_assert(r >= 0 && r <= 15, "getResolution in 0-15");
    int bc = H3_EXPORT(getBaseCellNumber)(h); __CPROVER_assert(bc >= 0 && bc <= 127, "getBaseCellNumber in 0-127");
    (void)H3_EXPORT(isValidCell)(h); (void)H3_EXPORT(isResClassIII)(h); (void)H3_EXPORT(isPentagon)(h);
    (void)H3_EXPORT(isValidDirectedEdge)(h);
    int mx = 0; H3Error e = H3_EXPORT(maxFaceCount)(h, &mx); __CPROVER_assert(e == E_SUCCESS && (mx == 2 || mx == 5), "maxFaceCount is 2 or 5");
    int64_t n = 0; e = H3_EXPORT(getNumCells)(i, &n); __CPROVER_assert((i < 0 || i > 15) ? e == E_RES_DOMAIN : (e == E_SUCCESS && n > 0), "getNumCells domain");
    double o = 0; e = H3_EXPORT(getHexagonAreaAvgKm2)(i, &o); __CPROVER_assert((i < 0 || i > 15) ? e == E_RES_DOMAIN : e == E_SUCCESS, "getHexagonAreaAvgKm2 domain");
    e = H3_EXPORT(getHexagonAreaAvgM2)(i, &o); __CPROVER_assert((i < 0 || i > 15) ? e == E_RES_DOMAIN : e == E_SUCCESS, "getHexagonAreaAvgM2 domain");
    e = H3_EXPORT(getHexagonEdgeLengthAvgKm)(i, &o); __CPROVER_assert((i < 0 || i > 15) ? e == E_RES_DOMAIN : e == E_SUCCESS, "getHexagonEdgeLengthAvgKm domain");
    e = H3_EXPORT(getHexagonEdgeLengthAvgM)(i, &o); __CPROVER_assert((i < 0 || i > 15) ? e == E_RES_DOMAIN : e == E_SUCCESS, "getHexagonEdgeLengthAvgM domain");
    (void)H3_EXPORT(degsToRads)(d); (void)H3_EXPORT(radsToDegs)(d);
    int64_t sz = -1; e = H3_EXPORT(maxGridDiskSize)(i, &sz); __CPROVER_assert(i < 0 ? e == E_DOMAIN : (e == E_SUCCESS && sz >= 1), "maxGridDiskSize domain");
    H3Index og = 0; e = H3_EXPORT(getDirectedEdgeOrigin)(h, &og); __CPROVER_assert(e == E_SUCCESS || e == E_DIR_EDGE_INVALID, "getDirectedEdgeOrigin codes");
    H3Index *ed = xmalloc(6 * sizeof(H3Index)); e = H3_EXPORT(originToDirectedEdges)(h, ed); __CPROVER_assert(CODE(e), "originToDirectedEdges code"); free(ed);
    H3Index *pe = xmalloc(12 * sizeof(H3Index)); e = H3_EXPORT(getPentagons)(i, pe); __CPROVER_assert((i < 0 || i > 15) ? e == E_RES_DOMAIN : e == E_SUCCESS, "getPentagons domain"); free(pe);
    VP_WITNESS("cheap");
#elif defined(RES0CELLS)
    VP_EXCLUDE();
    H3Index *b = xmalloc(122 * sizeof(H3Index)); H3Error e = H3_EXPORT(getRes0Cells)(b); __CPROVER_assert(e == E_SUCCESS, "getRes0Cells"); free(b);
    __CPROVER_assert(H3_EXPORT(res0CellCount)() == 122 && H3_EXPORT(pentagonCount)() == 12, "counts");
    VP_WITNESS("res0");
#elif defined(HIER)
    uint64_t h = in_h = vp_u64("in_h"); int r = in_i1 = vp_int("in_i1");
    VP_EXCLUDE();
    H3Index p = 0; H3Error e = H3_EXPORT(cellToParent)(h, r, &p);
    __CPROVER_assert(e == E_SUCCESS || e == E_RES_DOMAIN || e == E_RES_MISMATCH, "cellToParent codes");
    if (r < 0 || r > 15) __CPROVER_assert(e == E_RES_DOMAIN, "cellToParent res domain");
    int64_t sz = 0; e = H3_EXPORT(cellToChildrenSize)(h, r, &sz); __CPROVER_assert(e == E_SUCCESS || e == E_RES_DOMAIN, "cellToChildrenSize codes");
    if (r < 0 || r > 15) __CPROVER_assert(e == E_RES_DOMAIN, "cellToChildrenSize res domain");
    H3Index cc = 0; e = H3_EXPORT(cellToCenterChild)(h, r, &cc); __CPROVER_assert(e == E_SUCCESS || e == E_RES_DOMAIN, "cellToCenterChild codes");
    VP_WITNESS("hier");
#elif defined(CHILDPOS)
    uint64_t h = in_h = vp_u64("in_h"); int r = in_i1 = vp_int("in_i1");
    VP_EXCLUDE();
    int64_t out = 0; H3Error e = H3_EXPORT(cellToChildPos)(h, r, &out);
    __CPROVER_assert(CODE(e), "cellToChildPos: documented code");
    if (r < 0 || r > 15) __CPROVER_assert(e == E_RES_DOMAIN, "cellToChildPos res domain");
    VP_WITNESS("childpos");
#elif defined(POSCHILD)
    uint64_t h = in_h = vp_u64("in_h"); int r = in_i1 = vp_int("in_i1"); int64_t pos = in_l1 = vp_i64("in_l1");
    VP_EXCLUDE();
    H3Index c = 0; H3Error e = H3_EXPORT(childPosToCell)(pos, h, r, &c);
    __CPROVER_assert(CODE(e), "childPosToCell: documented code");
    if (r < 0 || r > 15) __CPROVER_assert(e == E_RES_DOMAIN, "childPosToCell res domain");
    VP_WITNESS("poschild");
#elif defined(CHILDREN)
    // arbitrary word, child resolution at most one level finer than the word's resolution field (<= 7 children)
    uint64_t h = in_h = vp_u64("in_h"); int r = in_i1 = vp_int("in_i1");
    VP_EXCLUDE();
    int64_t sz = 0; H3Error e = H3_EXPORT(cellToChildrenSize)(h, r, &sz);
    if (e == E_SUCCESS && r - H3_GET_RESOLUTION(h) <= 1) {
        __CPROVER_assert(sz >= 1 && sz <= 7, "size of one level");
        H3Index *b = xmalloc(sz * sizeof(H3Index));
        e = H3_EXPORT(cellToChildren)(h, r, b); __CPROVER_assert(CODE(e), "cellToChildren code");
        free(b);
        VP_WITNESS("children");
    }
#elif defined(UNCOMPACT)
    // two arbitrary words, target resolution at most one level finer than either
    uint64_t w[2]; w[0] = in_w[0] = vp_u64_i("in_w", 0); w[1] = in_w[1] = vp_u64_i("in_w", 1); int r = in_i1 = vp_int("in_i1");
    int64_t cap = in_l1 = CAPV;   // capacity is a job parameter (constant allocation size)
    VP_EXCLUDE();
    int64_t sz = -1; H3Error e = H3_EXPORT(uncompactCellsSize)(w, 2, r, &sz);
    __CPROVER_assert(CODE(e), "uncompactCellsSize code");
    if (e == E_SUCCESS && sz <= 14) {
        H3Index *b = xmalloc(cap * sizeof(H3Index));
        H3Error e2 = H3_EXPORT(uncompactCells)(w, 2, b, cap, r);
        __CPROVER_assert(CODE(e2), "uncompactCells code");
        if (cap < sz) { VP_WITNESS("too small"); __CPROVER_assert(e2 == E_MEMORY_BOUNDS, "capacity below the needed size -> E_MEMORY_BOUNDS"); }
        free(b);
    }
#elif defined(COMPACT)
    uint64_t w[NW];
    for (int i = 0; i < NW; i++) w[i] = in_w[i] = vp_u64_i("in_w", i);
    VP_EXCLUDE();
    H3Index *o = xmalloc(NW * sizeof(H3Index));
    H3Error e = H3_EXPORT(compactCells)(w, o, NW);
    __CPROVER_assert(CODE(e), "compactCells code");
    free(o);
    VP_WITNESS("compact");
#elif defined(DISK)
    // k in {<0, 0, 1}: buffers of exactly maxGridDiskSize(k)
    // KK is a job parameter (symbolic allocation sizes force CBMC into its unbounded-array encoding):
    // KK=-1: any negative k (1-slot buffers), KK=0, KK=1 (7 slots = maxGridDiskSize(1))
    uint64_t h = in_h = word_at_res("in_h"); int k = in_k = vp_int("in_k");
#if KK < 0
    k = in_k = -1;   // concrete: a symbolic k reaches calloc(maxIdx) symbolically on an infeasible path (unbounded-array encoding)
    enum { n = 1 };
#elif KK == 0
    __CPROVER_assume(k == 0);
    enum { n = 1 };
#else
    __CPROVER_assume(k == 1);
    enum { n = 7 };
#endif
    VP_EXCLUDE();
    int64_t nn = 0; H3Error es = H3_EXPORT(maxGridDiskSize)(k, &nn);
    __CPROVER_assert(k < 0 ? es == E_DOMAIN : (es == E_SUCCESS && nn == n), "buffer size is the documented maxGridDiskSize(k)");
    H3Index *o = xmalloc(n * sizeof(H3Index)); int *dd = xmalloc(n * sizeof(int));
    for (int i = 0; i < n; i++) { o[i] = 0; dd[i] = 0; }
    H3Error e;
#if FN == 0
    e = H3_EXPORT(gridDisk)(h, k, o);
#elif FN == 1
    e = H3_EXPORT(gridDiskDistances)(h, k, o, dd);
#elif FN == 2
    e = H3_EXPORT(gridDiskDistancesSafe)(h, k, o, dd);
#elif FN == 3
    e = H3_EXPORT(gridDiskUnsafe)(h, k, o);
#elif FN == 4
    e = H3_EXPORT(gridDiskDistancesUnsafe)(h, k, o, dd);
#elif FN == 5
    e = H3_EXPORT(gridRingUnsafe)(h, k, o);
#endif
    __CPROVER_assert(CODE(e), "disk function: documented code");
#if FN != 5
    if (k < 0) __CPROVER_assert(e == E_DOMAIN, "negative k -> E_DOMAIN");
#endif
    free(o); free(dd);
    VP_WITNESS("disk");
#elif defined(PAIR)
    // two arbitrary words (first with resolution field RES)
    uint64_t a = in_h = word_at_res("in_h"), b = in_h2 = vp_u64("in_h2");
    VP_EXCLUDE();
    H3Error e;
#if FN == 0
    int out = 0; e = H3_EXPORT(areNeighborCells)(a, b, &out);
#elif FN == 1
    H3Index out = 0; e = H3_EXPORT(cellsToDirectedEdge)(a, b, &out);
#elif FN == 2
    H3Index out = 0; e = H3_EXPORT(getDirectedEdgeDestination)(a, &out);
#elif FN == 3
    H3Index *od = xmalloc(2 * sizeof(H3Index)); e = H3_EXPORT(directedEdgeToCells)(a, od); free(od);
#elif FN == 4
    int64_t d = 0; e = H3_EXPORT(gridDistance)(a, b, &d);
#elif FN == 5
    CoordIJ ij; e = H3_EXPORT(cellToLocalIj)(a, b, (uint32_t)0, &ij);
#endif
    __CPROVER_assert(CODE(e), "documented code");
    VP_WITNESS("pair");
#elif defined(IJ2CELL)
    uint64_t a = in_h = word_at_res("in_h"); CoordIJ ij; ij.i = in_i1 = vp_int("in_i1"); ij.j = in_i2 = vp_int("in_i2");
    uint32_t mode = in_u = (uint32_t)(vp_u64("in_u") & 0xffffffffu);
    VP_EXCLUDE();
    H3Index out = 0; H3Error e = H3_EXPORT(localIjToCell)(a, &ij, mode, &out);
    __CPROVER_assert(CODE(e), "localIjToCell: documented code");
    if (mode != 0) __CPROVER_assert(e == E_OPTION_INVALID, "mode != 0 -> E_OPTION_INVALID");
    VP_WITNESS("ij2cell");
#elif defined(VERTEXAPI)
    // vertex functions on an arbitrary word with resolution field RES
    uint64_t h = in_h = word_at_res("in_h"); int v = in_i1 = vp_int("in_i1");
    VP_EXCLUDE();
    H3Error e;
#if FN == 0
    H3Index out = 0; e = H3_EXPORT(cellToVertex)(h, v, &out);
    __CPROVER_assert(CODE(e), "cellToVertex: documented code");
#elif FN == 1
    H3Index *vs = xmalloc(6 * sizeof(H3Index)); e = H3_EXPORT(cellToVertexes)(h, vs); free(vs);
    __CPROVER_assert(CODE(e), "cellToVertexes: documented code");
#elif FN == 2
    int ok = H3_EXPORT(isValidVertex)(h); e = 0;
    __CPROVER_assert(ok == 0 || ok == 1, "isValidVertex is a predicate");
#elif FN == 3
    int *fs = xmalloc(5 * sizeof(int)); int mx = 0; H3_EXPORT(maxFaceCount)(h, &mx);
    int *fs2 = xmalloc(2 * sizeof(int));
    e = H3_EXPORT(getIcosahedronFaces)(h, mx == 5 ? fs : fs2); free(fs); free(fs2);
    __CPROVER_assert(CODE(e), "getIcosahedronFaces: documented code");
#endif
    VP_WITNESS("vertexapi");
#elif defined(GCDIST)
    LatLng a, b; a.lat = in_d1 = vp_double("in_d1"); a.lng = in_d2 = vp_double("in_d2"); b.lat = in_d3 = vp_double("in_d3"); b.lng = in_d4 = vp_double("in_d4");
    VP_EXCLUDE();
    (void)H3_EXPORT(greatCircleDistanceRads)(&a, &b); (void)H3_EXPORT(greatCircleDistanceKm)(&a, &b); (void)H3_EXPORT(greatCircleDistanceM)(&a, &b);
    VP_WITNESS("gcdist");
    __CPROVER_assert(1, "greatCircleDistance* return");
#endif
}
