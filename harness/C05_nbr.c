// C05.H1/H2/H3: one neighbour step from any valid cell in any direction (closure, distinctness, symmetry)
#include "mkcell.h"
#include "baseCells.h"
#include "algos.h"
H3Index in_h; int in_d, in_d2;
static const Direction DIRS[6] = {J_AXES_DIGIT, JK_AXES_DIGIT, K_AXES_DIGIT, IK_AXES_DIGIT, I_AXES_DIGIT, IJ_AXES_DIGIT};
static const int revIdx[7] = {7, 5, 3, 4, 1, 0, 2};
void harness(void) {
    H3Index h = in_h = mkcell(RES, "in_h");
    int d = in_d = vp_int("in_d");
    __CPROVER_assume(d >= 1 && d <= 6);
    VP_EXCLUDE();
    int rot = 0;
    H3Index n = 0;
    H3Error e = h3NeighborRotations(h, (Direction)d, &rot, &n);
#if defined(CLOSURE)
    if (e == E_SUCCESS) {
        VP_WITNESS("success branch");
        __CPROVER_assert(H3_EXPORT(isValidCell)(n), "neighbour is a valid cell");
        __CPROVER_assert(H3_GET_RESOLUTION(n) == RES, "neighbour has the same resolution");
        __CPROVER_assert(n != h, "neighbour differs from the cell");
        __CPROVER_assert(rot >= 0 && rot < 6, "rotation count in range");
    } else {
        VP_WITNESS("pentagon branch");
        __CPROVER_assert(e == E_PENTAGON && H3_EXPORT(isPentagon)(h) && d == K_AXES_DIGIT, "only the deleted K direction of a pentagon fails");
    }
#elif defined(DISTINCT)
    int d2 = in_d2 = vp_int("in_d2");
    __CPROVER_assume(d2 >= 1 && d2 <= 6 && d2 != d);
    // the deleted K direction of a pentagon is not a neighbour direction (at res 0 the step falls back to the IK neighbour)
    __CPROVER_assume(!(H3_EXPORT(isPentagon)(h) && (d == K_AXES_DIGIT || d2 == K_AXES_DIGIT)));
    int rot2 = 0;
    H3Index n2 = 0;
    H3Error e2 = h3NeighborRotations(h, (Direction)d2, &rot2, &n2);
    if (e == E_SUCCESS && e2 == E_SUCCESS) {
        VP_WITNESS("both succeed");
        __CPROVER_assert(n != n2, "neighbours in different directions are different cells");
    }
#elif defined(SYMHEX)
    __CPROVER_assume(e == E_SUCCESS);
    __CPROVER_assume(!H3_EXPORT(isPentagon)(n));
    Direction back = DIRS[(revIdx[d] + rot) % 6];
    int rot2 = 0;
    H3Index m = 0;
    H3Error e2 = h3NeighborRotations(n, back, &rot2, &m);
    VP_WITNESS("hexagon neighbour");
    __CPROVER_assert(e2 == E_SUCCESS && m == h, "adjacency symmetric: the back direction leads to the cell");
#elif defined(SYMPENT)
    __CPROVER_assume(e == E_SUCCESS);
    __CPROVER_assume(H3_EXPORT(isPentagon)(n));
    VP_WITNESS("pentagon neighbour");
    __CPROVER_assert(directionForNeighbor(n, h) != INVALID_DIGIT, "adjacency symmetric: the pentagon neighbour has the cell as a neighbour");
#endif
}
