// C08 lattice level. Modes COUNT (vertex counts of cellToBoundary with the projection stubbed), CORNER (shared corner)
#include "mkcell.h"
#include "spec.h"
#include "baseCells.h"
#include "algos.h"
#include "faceijk.h"
#include "vec2d.h"
#include "up7model.h"
H3Index in_h; int in_v;
#if defined(COUNT)
// S-GEO: the gnomonic back-projection and the 2D intersection return arbitrary values
void _hex2dToGeo(const Vec2d *v, int face, int res, int substrate, LatLng *g) { __CPROVER_assert(face >= 0 && face < 20 && res >= 0 && res <= 16, "projection called with a valid face and resolution"); g->lat = vp_next_double(); g->lng = vp_next_double(); }
void _v2dIntersect(const Vec2d *p0, const Vec2d *p1, const Vec2d *p2, const Vec2d *p3, Vec2d *inter) { inter->x = vp_next_double(); inter->y = vp_next_double(); }
bool _v2dAlmostEquals(const Vec2d *a, const Vec2d *b) { return vp_next_bool(); }
void harness(void) {
    H3Index h = in_h = mkcell(RES, "in_h");
    VP_EXCLUDE();
    CellBoundary cb;
    cb.numVerts = -1;
    H3Error e = H3_EXPORT(cellToBoundary)(h, &cb);
    __CPROVER_assert(e == E_SUCCESS, "cellToBoundary succeeds on every valid cell");
    int n = cb.numVerts;
    __CPROVER_assert(n >= 0 && n <= MAX_CELL_BNDRY_VERTS, "never more than MAX_CELL_BNDRY_VERTS vertices");
    if (spec_is_pentagon(h)) {
        VP_WITNESS("pentagon");
        __CPROVER_assert(n == ((RES % 2) ? 10 : 5), "pentagon: 5 vertices at even, 10 at odd resolutions");
    } else {
        VP_WITNESS("hexagon");
        __CPROVER_assert((RES % 2) ? (n >= 6 && n <= 8) : n == 6, "hexagon: 6 vertices (up to 8 at odd resolutions)");
    }
}
#elif defined(CORNER)
#include "vertex.c"   // vertexRotations, vertexNumToDirectionHex (statics); unit dropped from the link set
static void verts_of(H3Index c, FaceIJK *vs, int *adjRes) { FaceIJK f; _h3ToFaceIjk(c, &f); int r = RES; _faceIjkToVerts(&f, &r, vs); *adjRes = r; }
void harness(void) {
    // corner v of hexagon h is also a corner of the neighbour across the edge that starts at v
    H3Index h = in_h = mkcell(RES, "in_h");
    __CPROVER_assume(!spec_is_pentagon(h));
    int v = in_v = vp_int("in_v");
    __CPROVER_assume(v >= 0 && v < 6);
    VP_EXCLUDE();
    FaceIJK hv[6]; int r1; verts_of(h, hv, &r1);
    int rotations = 0; vertexRotations(h, &rotations);
    Direction d = vertexNumToDirectionHex[(v + rotations) % 6];
    int rot = 0; H3Index n = 0;
    H3Error e = h3NeighborRotations(h, d, &rot, &n);
    __CPROVER_assume(e == E_SUCCESS && !spec_is_pentagon(n));
    FaceIJK nv[6]; int r2; verts_of(n, nv, &r2);
    FaceIJK A = hv[v];
    Overage oa = _adjustOverageClassII(&A, r1, 0, 1);
    int found = 0, edge = 0;
    for (int k = 0; k < 6; k++) {
        FaceIJK B = nv[k];
        Overage ob = _adjustOverageClassII(&B, r2, 0, 1);
        if (B.face == A.face && B.coord.i == A.coord.i && B.coord.j == A.coord.j && B.coord.k == A.coord.k) found = 1;
        if (ob == FACE_EDGE && oa == FACE_EDGE && B.face != A.face) edge = 1;
    }
    VP_WITNESS("corner");
    __CPROVER_assert(found || edge, "the corner is the same lattice point of the neighbour (or both lie on an icosahedron edge): boundaries share their corners");
}
#endif
