// C01 closure of lattice-produced indexes: _faceIjkToH3 on an arbitrary ijk+ address of any face returns H3_NULL or a
// valid cell of the requested resolution (=> latLngToCell, localIjToCell, gridPathCells return an error or a valid cell)
#include "vp.h"
#include "spec.h"
#include "h3Index.h"
#include "faceijk.h"
#include "up7model.h"
int in_face, in_i, in_j, in_k;
void harness(void) {
    FaceIJK f;
    f.face = in_face = vp_int("in_face"); f.coord.i = in_i = vp_int("in_i"); f.coord.j = in_j = vp_int("in_j"); f.coord.k = in_k = vp_int("in_k");
    __CPROVER_assume(f.face >= 0 && f.face < 20);
    __CPROVER_assume(f.coord.i >= 0 && f.coord.j >= 0 && f.coord.k >= 0 && (f.coord.i == 0 || f.coord.j == 0 || f.coord.k == 0));
    // the address lies on the face triangle it is expressed on (what _geoToFaceIjk produces), with one cell of slack
    __CPROVER_assume(f.coord.i <= MAXD && f.coord.j <= MAXD && f.coord.k <= MAXD && f.coord.i + f.coord.j + f.coord.k <= MAXD);
    VP_EXCLUDE();
    H3Index h = _faceIjkToH3(&f, RES);
    if (h != 0) {
        VP_WITNESS("non-null");
        __CPROVER_assert(spec_valid_cell(h), "_faceIjkToH3 returns H3_NULL or a valid cell");
        __CPROVER_assert((int)((h >> 52) & 15) == RES, "of the requested resolution");
    }
}
