// C10: directed edges. Modes VALID (all words), DEST, CELLS2EDGE, ANYDEST, ORIGINS, MODE
#include "mkcell.h"
#include "spec.h"
#include "baseCells.h"
#include "algos.h"
H3Index in_a, in_b, in_e; int in_d;
#ifndef RES
#define RES 0
#endif
static H3Index mkedge(H3Index a, int d) {
    return (a & ~(UINT64_C(15) << 59) & ~(UINT64_C(7) << 56)) | (UINT64_C(2) << 59) | ((uint64_t)d << 56);
}
void harness(void) {
#if defined(VALID)
    uint64_t e = in_e = vp_u64("in_e");
    VP_EXCLUDE();
    int got = H3_EXPORT(isValidDirectedEdge)(e);
    int mode = (int)((e >> 59) & 15), dir = (int)((e >> 56) & 7), hi = (int)(e >> 63);
    uint64_t origin = (e & ~(UINT64_C(15) << 59) & ~(UINT64_C(7) << 56)) | (UINT64_C(1) << 59);
    int ref = !hi && mode == 2 && dir >= 1 && dir <= 6 && spec_valid_cell(origin) && !(spec_is_pentagon(origin) && dir == 1);
    if (got) VP_WITNESS("accepted edge");
    __CPROVER_assert((got != 0) == (ref != 0), "isValidDirectedEdge == mode 2, direction 1-6 (not 1 on a pentagon), valid origin cell");
#elif defined(DEST)
    H3Index a = in_a = mkcell(RES, "in_a");
    int d = in_d = vp_int("in_d");
    __CPROVER_assume(d >= 1 && d <= 6 && !(spec_is_pentagon(a) && d == 1));
    VP_EXCLUDE();
    int rot = 0; H3Index b = 0;
    H3Error e0 = h3NeighborRotations(a, (Direction)d, &rot, &b);
    __CPROVER_assert(e0 == E_SUCCESS, "every non-deleted direction has a neighbour");
    H3Index e = mkedge(a, d);
    __CPROVER_assert(H3_EXPORT(isValidDirectedEdge)(e), "edge (origin, direction) is accepted by isValidDirectedEdge");
    H3Index o = 0, t = 0, od[2] = {0, 0};
    __CPROVER_assert(H3_EXPORT(getDirectedEdgeOrigin)(e, &o) == E_SUCCESS && o == a, "origin decodes back");
    __CPROVER_assert(H3_EXPORT(getDirectedEdgeDestination)(e, &t) == E_SUCCESS && t == b, "destination is the neighbour in that direction");
    VP_WITNESS("dest");
    __CPROVER_assert(H3_EXPORT(directedEdgeToCells)(e, od) == E_SUCCESS && od[0] == a && od[1] == b, "directedEdgeToCells = (origin, destination)");
#elif defined(CELLS2EDGE)
    H3Index a = in_a = mkcell(RES, "in_a");
    int d = in_d = vp_int("in_d");
    __CPROVER_assume(d >= 1 && d <= 6 && !(spec_is_pentagon(a) && d == 1));
    VP_EXCLUDE();
    int rot = 0; H3Index b = 0;
    H3Error e0 = h3NeighborRotations(a, (Direction)d, &rot, &b);
    __CPROVER_assume(e0 == E_SUCCESS);
    H3Index e = 0;
    H3Error e1 = H3_EXPORT(cellsToDirectedEdge)(a, b, &e);
    VP_WITNESS("cells2edge");
    __CPROVER_assert(e1 == E_SUCCESS, "cellsToDirectedEdge succeeds for every neighbour pair");
    __CPROVER_assert(e == mkedge(a, d), "edge index = origin with mode 2 and the neighbour direction");
#elif defined(ANYDEST)
    // arbitrary 64-bit destination: success exactly when it is one of the neighbours
    H3Index a = in_a = mkcell(RES, "in_a");
    H3Index b = in_b = vp_u64("in_b");
    VP_EXCLUDE();
    int isnb = 0, dd = 0;
    for (int d = 6; d >= 1; d--) {
        if (spec_is_pentagon(a) && d == 1) continue;
        int rot = 0; H3Index n = 0;
        if (h3NeighborRotations(a, (Direction)d, &rot, &n) == E_SUCCESS && n == b) { isnb = 1; dd = d; }
    }
    H3Index e = UINT64_C(0x5a5a5a5a5a5a5a5a);
    H3Error e1 = H3_EXPORT(cellsToDirectedEdge)(a, b, &e);
    if (isnb) {
        __CPROVER_assert(e1 == E_SUCCESS && e == mkedge(a, dd), "neighbour -> the edge in its direction");
    } else {
        VP_WITNESS("not neighbours");
        __CPROVER_assert(e1 == E_NOT_NEIGHBORS, "non-neighbour destination -> E_NOT_NEIGHBORS");
        __CPROVER_assert(e == UINT64_C(0x5a5a5a5a5a5a5a5a), "no edge written on error");
    }
#elif defined(ORIGINS)
    H3Index a = in_a = mkcell(RES, "in_a");
    VP_EXCLUDE();
    H3Index ed[8];
    for (int i = 0; i < 8; i++) ed[i] = UINT64_C(0x5a5a5a5a5a5a5a5a);
    H3Error e1 = H3_EXPORT(originToDirectedEdges)(a, ed + 1);
    __CPROVER_assert(e1 == E_SUCCESS, "originToDirectedEdges succeeds");
    for (int i = 0; i < 6; i++) {
        if (spec_is_pentagon(a) && i == 0) { VP_WITNESS("pentagon null slot"); __CPROVER_assert(ed[1 + i] == 0, "pentagon: the deleted direction's slot is null"); }
        else __CPROVER_assert(ed[1 + i] == mkedge(a, i + 1), "slot i = edge in direction i+1");
    }
    __CPROVER_assert(ed[0] == UINT64_C(0x5a5a5a5a5a5a5a5a) && ed[7] == UINT64_C(0x5a5a5a5a5a5a5a5a), "exactly six slots written");
#elif defined(MODE)
    uint64_t e = in_e = vp_u64("in_e");
    __CPROVER_assume(((e >> 59) & 15) != 2);
    VP_EXCLUDE();
    H3Index o = UINT64_C(0x5a5a5a5a5a5a5a5a), od[2] = {UINT64_C(0x5a5a5a5a5a5a5a5a), UINT64_C(0x5a5a5a5a5a5a5a5a)};
    __CPROVER_assert(H3_EXPORT(getDirectedEdgeOrigin)(e, &o) == E_DIR_EDGE_INVALID, "getDirectedEdgeOrigin: wrong mode -> E_DIR_EDGE_INVALID");
    __CPROVER_assert(H3_EXPORT(getDirectedEdgeDestination)(e, &o) == E_DIR_EDGE_INVALID, "getDirectedEdgeDestination: wrong mode -> E_DIR_EDGE_INVALID");
    __CPROVER_assert(H3_EXPORT(directedEdgeToCells)(e, od) == E_DIR_EDGE_INVALID, "directedEdgeToCells: wrong mode -> E_DIR_EDGE_INVALID");
    VP_WITNESS("mode");
    __CPROVER_assert(o == UINT64_C(0x5a5a5a5a5a5a5a5a) && od[0] == o && od[1] == o, "no result on error");
    __CPROVER_assert(!H3_EXPORT(isValidDirectedEdge)(e), "wrong mode is not a valid edge");
#endif
}
