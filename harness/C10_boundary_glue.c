// C10.H6 glue: directedEdgeToBoundary returns the boundary run of exactly the two topological corners of the edge,
// starting at vertexNumForDirection(origin, direction); an invalid direction yields E_DIR_EDGE_INVALID with 0 vertices.
// Also cellToBoundary = the full loop of the cell starting at corner 0. Boundary generators are semantic stubs
// (corners tagged by number, distortion points may be inserted), vertexNumForDirection is an arbitrary in-range value.
#include "vp.h"
#include "h3api.h"
#include "h3Index.h"
#include "faceijk.h"
#include "vertex.h"
uint64_t in_e; int in_pent, in_err, in_start; int s_dist[12];
int H3_EXPORT(isPentagon)(H3Index h) { return in_pent; }
H3Error _h3ToFaceIjk(H3Index h, FaceIJK *f) { f->face = 0; f->coord.i = f->coord.j = f->coord.k = 0; return (H3Error)in_err; }
int vertexNumForDirection(const H3Index origin, const Direction direction) {
    __CPROVER_assert(origin == ((in_e & ~(UINT64_C(15) << 59) & ~(UINT64_C(7) << 56)) | (UINT64_C(1) << 59)) && (int)direction == (int)((in_e >> 56) & 7), "start vertex asked for (origin, direction) of the edge");
    return in_start;
}
static int last_start, last_len, calls;
static void emit(int nverts, int start, int length, CellBoundary *g) {
    __CPROVER_assert(start >= 0 && start < nverts && length >= 1 && length <= nverts, "boundary generator called with a valid run of corners");
    calls++; last_start = start; last_len = length;
    g->numVerts = 0;
    int extra = (length == nverts) ? 1 : 0;
    for (int v = start; v < start + length + extra; v++) {
        if (v > start && s_dist[v % 12] && g->numVerts < MAX_CELL_BNDRY_VERTS) { g->verts[g->numVerts].lat = -1.0 - (v % nverts); g->verts[g->numVerts].lng = 0; g->numVerts++; }
        if (v < start + length && g->numVerts < MAX_CELL_BNDRY_VERTS) { g->verts[g->numVerts].lat = (double)(v % nverts); g->verts[g->numVerts].lng = 1; g->numVerts++; }
    }
}
void _faceIjkPentToCellBoundary(const FaceIJK *h, int res, int start, int length, CellBoundary *g) { __CPROVER_assert(in_pent, "pentagon generator for pentagon cells"); emit(5, start, length, g); }
void _faceIjkToCellBoundary(const FaceIJK *h, int res, int start, int length, CellBoundary *g) { __CPROVER_assert(!in_pent, "hexagon generator for hexagon cells"); emit(6, start, length, g); }
static int corners(const CellBoundary *cb, int *first, int *second) {   // topological corners in order
    int n = 0;
    for (int i = 0; i < MAX_CELL_BNDRY_VERTS; i++) if (i < cb->numVerts && cb->verts[i].lng == 1) { if (n == 0) *first = (int)cb->verts[i].lat; if (n == 1) *second = (int)cb->verts[i].lat; n++; }
    return n;
}
void harness(void) {
    in_e = vp_u64("in_e"); in_pent = vp_int("in_pent") & 1; in_err = vp_int("in_err"); in_start = vp_int("in_start");
    __CPROVER_assume(in_err >= 0 && in_err <= 15);
    int nv = in_pent ? 5 : 6;
    __CPROVER_assume(in_start == INVALID_VERTEX_NUM || (in_start >= 0 && in_start < nv));
    for (int i = 0; i < 12; i++) s_dist[i] = vp_int_i("s_dist", i) & 1;
    // contract of the real generators: a hexagon crosses at most one icosahedron edge (C19), i.e. at most 2 distortion
    // points per loop, so that the loop fits MAX_CELL_BNDRY_VERTS
    if (!in_pent) { int nd = 0; for (int i = 0; i < 12; i++) nd += s_dist[i]; __CPROVER_assume(nd <= 2); }
    VP_EXCLUDE();
    CellBoundary cb; cb.numVerts = -7;
#ifdef CELL
    H3Error e = H3_EXPORT(cellToBoundary)(in_e, &cb);
    if (in_err) { __CPROVER_assert(e == (H3Error)in_err, "conversion error passed through"); return; }
    int a = -1, b = -1;
    int n = corners(&cb, &a, &b);
    VP_WITNESS("cell boundary");
    __CPROVER_assert(e == E_SUCCESS && calls == 1 && n == nv && a == 0 && b == 1, "cellToBoundary = the full loop of the cell's corners starting at corner 0");
#else
    H3Error e = H3_EXPORT(directedEdgeToBoundary)(in_e, &cb);
    if (((in_e >> 59) & 15) != 2) { __CPROVER_assert(e == E_DIR_EDGE_INVALID, "wrong mode -> E_DIR_EDGE_INVALID"); return; }
    if (in_start == INVALID_VERTEX_NUM) { VP_WITNESS("invalid direction"); __CPROVER_assert(e == E_DIR_EDGE_INVALID && cb.numVerts == 0, "no such edge -> E_DIR_EDGE_INVALID, zero vertices"); return; }
    if (in_err) { __CPROVER_assert(e == (H3Error)in_err, "conversion error passed through"); return; }
    int a = -1, b = -1;
    int n = corners(&cb, &a, &b);
    VP_WITNESS("edge boundary");
    __CPROVER_assert(e == E_SUCCESS && n == 2 && a == in_start && b == (in_start + 1) % nv, "edge boundary = the two consecutive corners starting at the edge's start vertex");
    __CPROVER_assert(cb.numVerts == 2 || cb.numVerts == 3, "2 points, 3 where a distortion point lies between them");
#endif
}
