// C01.H1: isValidCell(h) == documented layout, for all 2^64 words; pentagon list == _isBaseCellPentagon
#include "vp.h"
#include "spec.h"
#include "h3Index.h"
#include "baseCells.h"
uint64_t in_h; int in_bc;
void harness(void) {
    uint64_t h = in_h = vp_u64("in_h");
    int bc = in_bc = vp_int("in_bc");
    VP_EXCLUDE();
    int a = H3_EXPORT(isValidCell)(h);
    int b = spec_valid_cell(h);
#ifdef WITNESS
    if (a) VP_WITNESS("valid word reachable");
    if (!a && (h >> 59) == 1 && ((h >> 45) & 127) < 122) VP_WITNESS("invalid-digit word reachable");
#endif
    __CPROVER_assert((a != 0) == (b != 0), "isValidCell equals the documented layout");
    __CPROVER_assume(bc >= 0 && bc < 128);
    if (bc < 122) __CPROVER_assert((_isBaseCellPentagon(bc) != 0) == (spec_is_pent_bc(bc) != 0), "pentagon base cells are the documented twelve");
    if (b) __CPROVER_assert((H3_EXPORT(isPentagon)(h) != 0) == (spec_is_pentagon(h) != 0), "for valid cells isPentagon == pentagon base cell and all digits 0");
}
