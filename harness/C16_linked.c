// C16 memory clauses of cellsToLinkedMultiPolygon. Modes GLUE (call protocol of the real cellsToLinkedMultiPolygon with
// its components stubbed), DESTROY (destroyLinkedMultiPolygon frees every block of an arbitrary small result),
// GRAPHERR (h3SetToVertexGraph leaves nothing allocated when a boundary fails)
#include "vp.h"
#include "h3api.h"
#include "h3Index.h"
#include "linkedGeo.h"
#include "vertexGraph.h"
#include "algos.h"
#if defined(GLUE)
int in_e1, in_e2, in_n; uint64_t in_set[2];
static int n_build, n_convert, n_destroy_graph, n_normalize, n_destroy_poly, order_ok = 1;
static LinkedGeoPolygon *the_out;
H3Error h3SetToVertexGraph(const H3Index *s, const int n, VertexGraph *g) { __CPROVER_assert(s == (const H3Index *)in_set && n == in_n, "set handed on unchanged"); n_build++; return (H3Error)in_e1; }
void _vertexGraphToLinkedGeo(VertexGraph *g, LinkedGeoPolygon *out) { if (!(n_build == 1 && n_destroy_graph == 0 && out == the_out)) order_ok = 0; n_convert++; }
void destroyVertexGraph(VertexGraph *g) { if (!(n_convert == 1)) order_ok = 0; n_destroy_graph++; }
H3Error normalizeMultiPolygon(LinkedGeoPolygon *root) { if (!(n_destroy_graph == 1 && root == the_out)) order_ok = 0; n_normalize++; return (H3Error)in_e2; }
void H3_EXPORT(destroyLinkedMultiPolygon)(LinkedGeoPolygon *p) { if (!(n_normalize == 1 && p == the_out)) order_ok = 0; n_destroy_poly++; }
void harness(void) {
    in_e1 = vp_int("in_e1"); in_e2 = vp_int("in_e2"); in_n = vp_int("in_n");
    __CPROVER_assume(in_e1 >= 0 && in_e1 <= 15 && in_e2 >= 0 && in_e2 <= 15);
    VP_EXCLUDE();
    LinkedGeoPolygon out; the_out = &out;
    H3Error e = H3_EXPORT(cellsToLinkedMultiPolygon)((const H3Index *)in_set, in_n, &out);
    __CPROVER_assert(order_ok, "build graph -> convert -> destroy graph -> normalize, each on the caller's objects");
    if (in_e1) { VP_WITNESS("build error"); __CPROVER_assert(e == (H3Error)in_e1 && n_convert == 0 && n_destroy_graph == 0 && n_destroy_poly == 0, "a failed graph construction is returned at once (the constructor has released its graph)"); }
    else {
        __CPROVER_assert(n_build == 1 && n_convert == 1 && n_destroy_graph == 1 && n_normalize == 1, "the vertex graph is destroyed exactly once on every path");
        if (in_e2) { VP_WITNESS("normalize error"); __CPROVER_assert(e == (H3Error)in_e2 && n_destroy_poly == 1, "when normalisation fails the partial result is released and the error returned"); }
        else __CPROVER_assert(e == E_SUCCESS && n_destroy_poly == 0, "success hands the result to the caller");
    }
}
#elif defined(DESTROY)
#include "allocshim.h"
int in_np, in_nl[2], in_nc[4];
void harness(void) {
    vp_alloc_init();
    for (int i = 0; i < VP_MAXALLOC + 8; i++) if (i < VP_MAXALLOC) __CPROVER_assume(!in_fail[i]);
    int np = in_np = vp_int("in_np"); __CPROVER_assume(np >= 1 && np <= 2);
    for (int i = 0; i < 2; i++) { in_nl[i] = vp_int_i("in_nl", i); __CPROVER_assume(in_nl[i] >= 0 && in_nl[i] <= 2); }
    for (int i = 0; i < 4; i++) { in_nc[i] = vp_int_i("in_nc", i); __CPROVER_assume(in_nc[i] >= 0 && in_nc[i] <= 2); }
    VP_EXCLUDE();
    LinkedGeoPolygon root = {0};
    LinkedGeoPolygon *p = &root;
    LatLng v = {0.1, 0.2};
    for (int i = 0; i < 2; i++) if (i < np) {
        if (i > 0) p = addNewLinkedPolygon(p);
        for (int j = 0; j < 2; j++) if (j < in_nl[i]) {
            LinkedGeoLoop *l = addNewLinkedLoop(p);
            for (int k = 0; k < 2; k++) if (k < in_nc[2 * i + j]) addLinkedCoord(l, &v);
        }
    }
    int allocated = vp_live;
    H3_EXPORT(destroyLinkedMultiPolygon)(&root);
    VP_WITNESS("destroy");
    __CPROVER_assert(vp_live == 0, "destroyLinkedMultiPolygon releases every block of the result");
    if (np == 2 && in_nl[0] == 2 && in_nc[0] == 2) __CPROVER_assert(allocated >= 5, "shape was really built");
}
#elif defined(NORMALIZE)
// normalizeMultiPolygon + destroyLinkedMultiPolygon: whatever the winding of the NL loops and whichever polygon (or none)
// each hole is assigned to, every block is released afterwards - on success and on the error return alike.
#include "allocshim.h"
int in_cw[4], in_assign[4];
static int nfind;
bool isClockwiseLinkedGeoLoop(const LinkedGeoLoop *loop) { static int n; int k = n++; __CPROVER_assume(k < 4); return in_cw[k]; }
void bboxFromLinkedGeoLoop(const LinkedGeoLoop *loop, BBox *bbox) { }
const LinkedGeoPolygon *findPolygonForHole(const LinkedGeoLoop *loop, const LinkedGeoPolygon *polygon, const BBox *bboxes, const int polygonCount) {
    int k = nfind++; __CPROVER_assume(k < 4);
    int a = in_assign[k];                      // -1: no parent found; otherwise the a-th polygon of the list
    if (a < 0) return 0;
    const LinkedGeoPolygon *p = polygon;
    for (int i = 0; i < 3; i++) if (i < a && p && p->next) p = p->next;
    return (polygonCount > 0) ? p : 0;
}
void harness(void) {
    vp_alloc_init();
    for (int i = 0; i < VP_MAXALLOC; i++) __CPROVER_assume(!in_fail[i]);
    for (int i = 0; i < 4; i++) { in_cw[i] = vp_int_i("in_cw", i) & 1; in_assign[i] = vp_int_i("in_assign", i); __CPROVER_assume(in_assign[i] >= -1 && in_assign[i] <= 2); }
    VP_EXCLUDE();
    LinkedGeoPolygon root = {0};
    LatLng v = {0.1, 0.2};
    for (int j = 0; j < NL; j++) { LinkedGeoLoop *l = addNewLinkedLoop(&root); addLinkedCoord(l, &v); }
    H3Error e = normalizeMultiPolygon(&root);
    if (e) VP_WITNESS("normalize error"); else VP_WITNESS("normalize ok");
    H3_EXPORT(destroyLinkedMultiPolygon)(&root);   // what cellsToLinkedMultiPolygon does on error and the caller does on success
    __CPROVER_assert(vp_live == 0, "after normalisation (success or error) and destroy nothing is left allocated");
}
#elif defined(GRAPHERR)
#include "allocshim.h"
#include "memmodel.h"
uint64_t in_set[2]; int in_failidx;
static int ncall;
H3Error H3_EXPORT(cellToBoundary)(H3Index h, CellBoundary *cb) {
    int me = ncall++;
    if (me == in_failidx) return E_CELL_INVALID;
    int n = vp_next_int(); __CPROVER_assume(n >= 0 && n <= 3); cb->numVerts = n;
    for (int i = 0; i < 3; i++) { cb->verts[i].lat = vp_next_double(); cb->verts[i].lng = vp_next_double(); __CPROVER_assume(cb->verts[i].lat >= -2 && cb->verts[i].lat <= 2 && cb->verts[i].lng >= -4 && cb->verts[i].lng <= 4); }
    return E_SUCCESS;
}
uint32_t _hashVertex(const LatLng *vertex, int res, int numBuckets) { uint32_t h = (uint32_t)vp_next_int(); __CPROVER_assume(h < (uint32_t)numBuckets); return h; }   // any hash is a legal hash
void harness(void) {
    vp_alloc_init();
    for (int i = 0; i < VP_MAXALLOC; i++) __CPROVER_assume(!in_fail[i]);
    in_set[0] = vp_u64_i("in_set", 0); in_set[1] = vp_u64_i("in_set", 1); in_failidx = vp_int("in_failidx");
    __CPROVER_assume(in_failidx >= 0 && in_failidx <= 2);
    VP_EXCLUDE();
    VertexGraph g;
    H3Error e = h3SetToVertexGraph(in_set, 2, &g);
    if (in_failidx < 2) { VP_WITNESS("boundary error"); __CPROVER_assert(e == E_CELL_INVALID && vp_live == 0, "a boundary error is returned with the graph fully released"); }
    else { __CPROVER_assert(e == E_SUCCESS, "graph built"); destroyVertexGraph(&g); __CPROVER_assert(vp_live == 0, "destroyVertexGraph releases every node and the bucket array"); }
}
#endif
