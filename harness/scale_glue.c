// Unit-scaling glue (C08.H0, C10.H7): the Km/M wrappers with the radians function replaced by an
// arbitrary (value, error code) stub. Bit-exact comparison of the scaling expression.
#include "vp.h"
#include "h3api.h"
#include "constants.h"
uint64_t in_h; double in_v; int in_e, in_k, in_s;
static int calls;
#ifdef AREA
H3Error H3_EXPORT(cellAreaRads2)(H3Index cell, double *out) {
    __CPROVER_assert(cell == in_h, "wrapper passes the cell through");
    calls++;
    if (in_e == 0) *out = in_v;
    return (H3Error)in_e;
}
#else
H3Error H3_EXPORT(edgeLengthRads)(H3Index edge, double *out) {
    __CPROVER_assert(edge == in_h, "wrapper passes the edge through");
    calls++;
    if (in_e == 0) *out = in_v;
    return (H3Error)in_e;
}
#endif
static int same(double a, double b) { return a == b || (a != a && b != b); }
void harness(void) {
    // stub value: k * 2^s with |k| <= 2^12 and four scales, or inf/NaN. (Equivalence of two full 53-bit
    // multiplier circuits is out of reach for SAT; a wrong scaling constant or order shows on this grid.)
    in_h = vp_u64("in_h"); in_e = vp_int("in_e"); in_k = vp_int("in_k"); in_s = vp_int("in_s");
    __CPROVER_assume(in_k >= -4096 && in_k <= 4096 && in_s >= 0 && in_s < 6);
    const double sc[4] = {1.0, 0x1p-30, 0x1p-60, 0x1p40};
    in_v = in_s < 4 ? (double)in_k * sc[in_s] : (in_s == 4 ? 1.0 / 0.0 : 0.0 / 0.0);
    __CPROVER_assume(in_e >= 0 && in_e <= 15);
    VP_EXCLUDE();
    double km = 123.0, m = 456.0;
#ifdef AREA
    H3Error e1 = H3_EXPORT(cellAreaKm2)(in_h, &km);
    H3Error e2 = H3_EXPORT(cellAreaM2)(in_h, &m);
    __CPROVER_assert(e1 == (H3Error)in_e && e2 == (H3Error)in_e, "error code of cellAreaRads2 is passed through");
    if (in_e == 0) {
        VP_WITNESS("area success");
        __CPROVER_assert(same(km, in_v * EARTH_RADIUS_KM * EARTH_RADIUS_KM), "cellAreaKm2 = cellAreaRads2 * R^2");
        __CPROVER_assert(same(m, in_v * EARTH_RADIUS_KM * EARTH_RADIUS_KM * 1000 * 1000), "cellAreaM2 = cellAreaKm2 * 10^6");
    } else {
        __CPROVER_assert(km == 123.0 && m == 456.0, "no area written on error");
    }
#else
    H3Error e1 = H3_EXPORT(edgeLengthKm)(in_h, &km);
    H3Error e2 = H3_EXPORT(edgeLengthM)(in_h, &m);
    __CPROVER_assert(e1 == (H3Error)in_e && e2 == (H3Error)in_e, "error code of edgeLengthRads is passed through");
    if (in_e == 0) {
        VP_WITNESS("length success");
        __CPROVER_assert(same(km, in_v * EARTH_RADIUS_KM), "edgeLengthKm = edgeLengthRads * R");
        __CPROVER_assert(same(m, in_v * EARTH_RADIUS_KM * 1000), "edgeLengthM = edgeLengthKm * 1000");
    }
#endif
    __CPROVER_assert(calls == 2, "each wrapper evaluates the radians function once");
}
