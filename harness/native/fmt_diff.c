// Translator validation for S-FMT: the interpretive model vs the sandbox libc on seeded values.
// Not the deciding step of C20; a disagreement means the model is wrong and C20 reports itself broken.
#define VP_FMT_DIFF
#define VP_NATIVE
#include <stdio.h>
#include <string.h>
#include <stdlib.h>
#include <inttypes.h>
#include "fmt.h"
static uint64_t s = 88172645463325252ULL;
static uint64_t rnd(void) { s ^= s << 13; s ^= s >> 7; s ^= s << 17; return s; }
int main(int argc, char **argv) {
    if (argc > 1) s ^= strtoull(argv[1], 0, 10) * 0x9E3779B97F4A7C15ULL + 1;
    long n = 0, bad = 0;
    const char *fm[] = {"%" PRIx64, "%" PRIX64, "%016" PRIx64, "%lu", "%ld", "%20lx", "%llx"};
    for (long it = 0; it < 100000; it++) {
        uint64_t v = rnd();
        int sh = (int)(rnd() % 64); if (it & 1) v >>= sh; if (it % 5 == 0) v = (uint64_t)1 << sh; if (it % 7 == 0) v = ((uint64_t)1 << sh) - 1;
        for (int k = 0; k < 7; k++) {
            char a[64], b[64]; memset(a, 0x5a, 64); memset(b, 0x5a, 64);
            int ra = sprintf(a, fm[k], v); int rb = vpmodel_sprintf(b, fm[k], v);
            n++; if (ra != rb || memcmp(a, b, 64)) { bad++; if (bad < 5) printf("MISMATCH sprintf %s %llx: '%s' vs '%s'\n", fm[k], (unsigned long long)v, a, b); }
            if (k < 3) { memset(a, 0x5a, 64); memset(b, 0x5a, 64); size_t cap = (size_t)(rnd() % 24);
                ra = snprintf(a, cap, fm[k], v); rb = vpmodel_snprintf(b, cap, fm[k], v);
                n++; if (ra != rb || memcmp(a, b, 64)) { bad++; if (bad < 5) printf("MISMATCH snprintf cap=%zu\n", cap); } }
        }
        // scanning: random short strings over a small alphabet + formatted numbers
        char str[24]; const char al[] = "0123456789abcdefABCDEFxX+- \tgz";
        int len = (int)(rnd() % 8); for (int i = 0; i < len; i++) str[i] = al[rnd() % (sizeof al - 1)]; str[len] = 0;
        if (it % 3 == 0) sprintf(str, "%" PRIx64, v);
        if (it % 11 == 0) sprintf(str, "0x%" PRIX64 "zz", v);
        uint64_t oa = 0x1234, ob = 0x1234;
        int ra = sscanf(str, "%" PRIx64, &oa), rb = vpmodel_sscanf(str, "%" PRIx64, &ob);
        {   char *ea = 0, *eb = 0; unsigned long long ua = strtoull(str, &ea, 16), ub = vpmodel_strtoull(str, &eb, 16);
            n++; if (ua != ub || ea != eb) { bad++; if (bad < 5) printf("MISMATCH strtoull '%s'\n", str); }
            n++; if (strspn(str, "0123456789abcdef") != vpmodel_strspn(str, "0123456789abcdef") || strcspn(str, "xX ") != vpmodel_strcspn(str, "xX ")) { bad++; if (bad < 5) printf("MISMATCH strspn '%s'\n", str); } }
        n++; if (ra != rb || oa != ob) { bad++; if (bad < 5) printf("MISMATCH sscanf '%s': %d %llx vs %d %llx\n", str, ra, (unsigned long long)oa, rb, (unsigned long long)ob); }
    }
    printf("FMT-DIFF cases=%ld mismatches=%ld unsupported=%d\n", n, bad, vpmodel_unsupported);
    return bad ? 1 : 0;
}
