// C17: allocation failure at any chosen allocation. Built with -DH3_ALLOC_PREFIX=vp_.
// Modes COMPACT (NW arbitrary words), NEIGHBORS, DISK (k=1), POLYEXP, POLYMAX, POLYLEGACY
#include "mkcell.h"
#include "spec.h"
#include "baseCells.h"
#include "algos.h"
#include "polygon.h"
#include "polyfill.h"
#include "bbox.h"
#include "allocshim.h"
#include "memmodel.h"
uint64_t in_w[8]; H3Index in_a, in_b; int in_d, in_mode, in_res, in_nv; double in_f[8];
#define COMMON_OBLIGATIONS(e) do { \
    __CPROVER_assert(vp_live == 0, "every block allocated has been freed on return (success and every error path)"); \
    __CPROVER_assert(!(vp_failed > 0) || (e) == E_MEMORY_ALLOC, "a failed allocation is reported as E_MEMORY_ALLOC"); \
    __CPROVER_assert(!((e) == E_MEMORY_ALLOC) || vp_failed > 0, "E_MEMORY_ALLOC only when an allocation failed"); \
} while (0)
#if defined(POLYEXP) || defined(POLYMAX) || defined(POLYLEGACY)
// S-GEO: arbitrary geometry of the right shape. Stated bound: at most GEO_BUDGET geometry evaluations per API call
// (paths scanning more cells are cut by the assumption; each scan iteration of the polygon iterator evaluates at least one).
#ifndef GEO_BUDGET
#define GEO_BUDGET 3
#endif
static int s_geo_calls;
#define GEO_TICK() { s_geo_calls++; __CPROVER_assume(s_geo_calls <= GEO_BUDGET); }
H3Error H3_EXPORT(cellToLatLng)(H3Index h, LatLng *g) { GEO_TICK(); if (vp_next_bool()) return E_CELL_INVALID; g->lat = vp_next_double(); g->lng = vp_next_double(); return E_SUCCESS; }
H3Error H3_EXPORT(cellToBoundary)(H3Index h, CellBoundary *cb) { GEO_TICK(); if (vp_next_bool()) return E_CELL_INVALID; int n = vp_next_int(); __CPROVER_assume(n >= 0 && n <= 10); cb->numVerts = n; /* vertices stay as the caller left them: an uninitialised CellBoundary is arbitrary */ return E_SUCCESS; }
H3Error H3_EXPORT(latLngToCell)(const LatLng *g, int res, H3Index *out) { if (vp_next_bool()) return E_FAILED; *out = vp_next(); __CPROVER_assume(*out != 0); return E_SUCCESS; }
H3Error cellToBBox(H3Index cell, BBox *out, bool coverChildren) { GEO_TICK(); if (vp_next_bool()) return E_CELL_INVALID; out->north = vp_next_double(); out->south = vp_next_double(); out->east = vp_next_double(); out->west = vp_next_double(); return E_SUCCESS; }
bool pointInsidePolygon(const GeoPolygon *p, const BBox *b, const LatLng *c) { return vp_next_bool(); }
bool cellBoundaryInsidePolygon(const GeoPolygon *p, const BBox *b, const CellBoundary *cb, const BBox *bb) { return vp_next_bool(); }
bool cellBoundaryCrossesPolygon(const GeoPolygon *p, const BBox *b, const CellBoundary *cb, const BBox *bb) { return vp_next_bool(); }
#endif
#if defined(POLYLEGACY)
// legacy flood fill: the size estimate is the constant NHEX (a symbolic allocation size forces CBMC into its
// unbounded-array encoding), the edge tracer seeds at most one cell, rings are arbitrary
H3Error H3_EXPORT(maxPolygonToCellsSize)(const GeoPolygon *p, int res, uint32_t flags, int64_t *out) { if (vp_next_bool()) return (H3Error)(1 + (vp_next_int() & 7)); *out = NHEX; return E_SUCCESS; }
H3Error _getEdgeHexagons(const GeoLoop *geoloop, int64_t numHexagons, int res, int64_t *numSearchHexes, H3Index *search, H3Index *found) {
    __CPROVER_assert(numHexagons == NHEX, "tracer gets the estimated size");
    if (vp_next_bool()) return E_FAILED;
#ifdef SEED
    if (*numSearchHexes == 0 && vp_next_bool()) { H3Index c = vp_next(); __CPROVER_assume(c != 0); search[0] = c; *numSearchHexes = 1; }
#endif
    return E_SUCCESS;
}
// nested gridDisk: either its scratch allocation fails (reported as E_MEMORY_ALLOC - proved for the real gridDisk by the
// disk_* / diskany_* jobs; counted as a failed allocation here) or it returns an arbitrary ring
H3Error H3_EXPORT(gridDisk)(H3Index origin, int k, H3Index *out) { if (vp_next_bool()) { vp_failed++; return E_MEMORY_ALLOC; } for (int i = 0; i < 7; i++) out[i] = vp_next(); return E_SUCCESS; }
#endif
void harness(void) {
    vp_alloc_init();
#if defined(COMPACT)
    H3Index in[NW], out[NW];
    for (int i = 0; i < NW; i++) { in[i] = in_w[i] = vp_u64_i("in_w", i); out[i] = 0; }
    VP_EXCLUDE();
    H3Error e = H3_EXPORT(compactCells)(in, out, NW);
    if (vp_failed > 0) VP_WITNESS("failure path");
    COMMON_OBLIGATIONS(e);
#elif defined(NEIGHBORS)
    H3Index a = in_a = mkcell(RES, "in_a");
    int d = in_d = vp_int("in_d");
    __CPROVER_assume(d >= 1 && d <= 6);
    int rot = 0; H3Index b = 0;
    H3Error e0 = h3NeighborRotations(a, (Direction)d, &rot, &b);
    __CPROVER_assume(e0 == E_SUCCESS);
    in_b = b;
    VP_EXCLUDE();
    int out = -1;
    H3Error e = H3_EXPORT(areNeighborCells)(a, b, &out);
    if (vp_failed > 0) VP_WITNESS("failure path");
    COMMON_OBLIGATIONS(e);
    __CPROVER_assert(!(vp_failed == 0) || (e == E_SUCCESS && out == 1), "neighbouring cells are recognised when nothing fails");
#elif defined(DISKANY)
    // arbitrary 64-bit origin (invalid cells included) with resolution field RES: the error paths of the safe fallback
    H3Index a = in_a = (vp_u64("in_a") & ~(UINT64_C(15) << 52)) | ((uint64_t)RES << 52);
    VP_EXCLUDE();
    H3Index out[7] = {0};
    H3Error e = H3_EXPORT(gridDisk)(a, 1, out);
    if (vp_failed > 0) VP_WITNESS("failure path");
    if (e != E_SUCCESS && e != E_MEMORY_ALLOC) VP_WITNESS("error path");
    __CPROVER_assert(vp_live == 0, "every block allocated has been freed on return (success and every error path)");
    __CPROVER_assert(!(vp_failed > 0) || e == E_MEMORY_ALLOC, "a failed allocation is reported as E_MEMORY_ALLOC");
    __CPROVER_assert(!(e == E_MEMORY_ALLOC) || vp_failed > 0, "E_MEMORY_ALLOC only when an allocation failed");
#elif defined(DISK)
    H3Index a = in_a = mkcell(RES, "in_a");
    VP_EXCLUDE();
    H3Index out[7] = {0}; int dist[7] = {0};
#ifdef WITHDIST
    H3Error e = H3_EXPORT(gridDiskDistances)(a, 1, out, dist);
#else
    H3Error e = H3_EXPORT(gridDisk)(a, 1, out);
#endif
    if (vp_failed > 0) VP_WITNESS("failure path");
    COMMON_OBLIGATIONS(e);
    if (vp_failed == 0) { int cnt = 0; for (int i = 0; i < 7; i++) if (out[i]) cnt++; __CPROVER_assert(e == E_SUCCESS && cnt == (spec_is_pentagon(a) ? 6 : 7), "k=1 disk complete when nothing fails"); }
#elif defined(POLYEXP) || defined(POLYMAX) || defined(POLYLEGACY)
    // polygon with 0-3 vertices (legacy: 3) and 0 or 1 hole of 3 vertices; arbitrary (finite or not) coordinates; S-GEO geometry
    LatLng v[3], hv[3];
    for (int i = 0; i < 3; i++) { v[i].lat = vp_double_i("in_f", 2 * i); v[i].lng = vp_double_i("in_f", 2 * i + 1); hv[i].lat = vp_next_double(); hv[i].lng = vp_next_double(); }
    GeoLoop hole = {.numVerts = 3, .verts = hv};
    int nh = in_d = NH;   // number of holes is a job parameter: a symbolic allocation size forces CBMC into its unbounded-array encoding
    // the outer loop has 0-3 vertices (0 = the empty polygon, which the iterator short-circuits), a hole 3
#if defined(POLYLEGACY)
    int nv = in_nv = 3;
#else
    int nv = in_nv = vp_int("in_nv");
    __CPROVER_assume(nv >= 0 && nv <= 3);
#endif
    GeoPolygon poly = {.geoloop = {.numVerts = nv, .verts = v}, .numHoles = nh, .holes = &hole};
    int res = in_res = vp_int("in_res"); uint32_t flags = (uint32_t)(in_mode = vp_int("in_mode"));
    __CPROVER_assume(res <= 2);   // stated bound (keeps the digit loops short); negative values exercise E_RES_DOMAIN
    VP_EXCLUDE();
#if defined(POLYEXP)
    H3Index out[3] = {0, 0, 0};
    H3Error e = H3_EXPORT(polygonToCellsExperimental)(&poly, res, flags, 2, out);
#elif defined(POLYMAX)
    int64_t sz = 0;
    H3Error e = H3_EXPORT(maxPolygonToCellsSizeExperimental)(&poly, res, flags, &sz);
#else
    H3Index out[NHEX + 1];
    for (int i = 0; i < NHEX; i++) out[i] = 0;
    out[NHEX] = UINT64_C(0x5a5a5a5a5a5a5a5a);
    H3Error e = H3_EXPORT(polygonToCells)(&poly, res, flags, out);
    __CPROVER_assert(out[NHEX] == UINT64_C(0x5a5a5a5a5a5a5a5a), "no write beyond the estimated size");
#endif
    if (vp_failed > 0) VP_WITNESS("failure path");
    __CPROVER_assert(vp_live == 0, "every block allocated has been freed on return (success and every error path)");
    __CPROVER_assert(!(vp_failed > 0) || e == E_MEMORY_ALLOC, "a failed allocation is reported as E_MEMORY_ALLOC");
#endif
}
