// C07 / C15: integer and bounding-box mechanisms of the polygon fill.
// Modes: NEXTCELL (traversal order), BBOX (algebra), BBOXLOOP (bboxFromGeoLoop), FLAGS, EMPTY
#include "mkcell.h"
#include "spec.h"
#include "baseCells.h"
#include "bbox.h"
#include "polygon.h"
#include "polyfill.h"
#include "constants.h"
#include <float.h>
#if defined(NEXTCELL)
#include "polyfill.c"
#endif
#ifndef RES
#define RES 0
#endif
H3Index in_c, in_y; double in_f[16]; uint32_t in_flags; int in_res, in_n;
static H3Index spec_parent(H3Index h, int pr) {
    uint64_t x = h & ~(UINT64_C(15) << 52);
    x |= (uint64_t)pr << 52;
    for (int r = 1; r <= 15; r++)
        if (r > pr) x |= UINT64_C(7) << (3 * (15 - r));
    return x;
}
#if defined(FLAGS) || defined(EMPTY)
// geometry must not be reached on a rejected call / an empty polygon
#include "algos.h"
H3Error H3_EXPORT(cellToLatLng)(H3Index h, LatLng *g) { __CPROVER_assert(0, "geometry reached: cellToLatLng"); return E_FAILED; }
H3Error H3_EXPORT(cellToBoundary)(H3Index h, CellBoundary *cb) { __CPROVER_assert(0, "geometry reached: cellToBoundary"); return E_FAILED; }
H3Error H3_EXPORT(latLngToCell)(const LatLng *g, int res, H3Index *out) { __CPROVER_assert(0, "geometry reached: latLngToCell"); return E_FAILED; }
H3Error cellToBBox(H3Index cell, BBox *out, bool coverChildren) { __CPROVER_assert(0, "geometry reached: cellToBBox"); return E_FAILED; }
H3Error bboxHexEstimate(const BBox *bbox, int res, int64_t *out) { __CPROVER_assert(0, "geometry reached: bboxHexEstimate"); return E_FAILED; }
H3Error H3_EXPORT(gridDisk)(H3Index origin, int k, H3Index *out) { __CPROVER_assert(0, "geometry reached: gridDisk"); return E_FAILED; }
bool pointInsidePolygon(const GeoPolygon *p, const BBox *b, const LatLng *c) { __CPROVER_assert(0, "geometry reached: pointInsidePolygon"); return 0; }
H3Error _getEdgeHexagons(const GeoLoop *geoloop, int64_t numHexagons, int res, int64_t *numSearchHexes, H3Index *search, H3Index *found) { __CPROVER_assert(0, "geometry reached: _getEdgeHexagons"); return E_FAILED; }
#endif
#if defined(BBOX) || defined(BBOXLOOP)
static void mkbb(BBox *b, int o) {
    b->north = in_f[o] = vp_double_i("in_f", o); b->south = in_f[o + 1] = vp_double_i("in_f", o + 1);
    b->east = in_f[o + 2] = vp_double_i("in_f", o + 2); b->west = in_f[o + 3] = vp_double_i("in_f", o + 3);
    __CPROVER_assume(b->north <= M_PI_2 && b->south >= -M_PI_2 && b->south <= b->north && b->east >= -M_PI && b->east <= M_PI && b->west >= -M_PI && b->west <= M_PI);
    // representation invariant established by the library's constructors (bboxFromGeoLoop, cellToBBox):
    // a box whose east < west is transmeridian and has east < 0 < west (proved for bboxFromGeoLoop in BBOXLOOP)
    __CPROVER_assume(!(b->east < b->west) || (b->east < 0 && b->west > 0));
}
#endif
void harness(void) {
#if defined(NEXTCELL)
    // nextCell(c) = next cell in pre-order that is not a descendant of c
    H3Index c = in_c = mkcell(RES, "in_c");
    H3Index y = in_y = mkcell(RES, "in_y");
    VP_EXCLUDE();
    H3Index n = nextCell(c);
    int r = RES;
    for (int k = 0; k < 16; k++) {
        if (r > 0 && H3_GET_INDEX_DIGIT(c, r) >= 6) r--;
    }
    // r = deepest level whose digit can still be incremented (0: none)
    if (r == 0) {
        int bc = H3_GET_BASE_CELL(c);
        VP_WITNESS("base cell step");
        if (bc == 121) __CPROVER_assert(n == 0, "after the last base cell the traversal ends");
        else __CPROVER_assert(n == ((UINT64_C(1) << 59) | ((uint64_t)(bc + 1) << 45) | ((UINT64_C(1) << 45) - 1)), "next base cell");
    } else {
        VP_WITNESS("sibling step");
        __CPROVER_assert(n != 0 && spec_valid_cell(n), "next cell is valid");
        __CPROVER_assert(H3_GET_RESOLUTION(n) == r, "next cell lives at the level of the increment");
        __CPROVER_assert(spec_parent(c, r - 1) == spec_parent(n, r - 1), "same parent above the increment level");
        __CPROVER_assert(H3_GET_INDEX_DIGIT(n, r) > H3_GET_INDEX_DIGIT(c, r), "digit increased");
        int dy = H3_GET_INDEX_DIGIT(y, r);
        if (spec_parent(y, r - 1) == spec_parent(c, r - 1) && dy > H3_GET_INDEX_DIGIT(c, r))
            __CPROVER_assert(dy >= H3_GET_INDEX_DIGIT(n, r), "no valid sibling sub-tree is skipped");
    }
#elif defined(BBOX)
    BBox a, b; mkbb(&a, 0); mkbb(&b, 4);
    LatLng p; p.lat = in_f[8] = vp_double_i("in_f", 8); p.lng = in_f[9] = vp_double_i("in_f", 9);
    __CPROVER_assume(p.lat >= -M_PI_2 && p.lat <= M_PI_2 && p.lng >= -M_PI && p.lng <= M_PI);
    VP_EXCLUDE();
    _Bool ina = bboxContains(&a, &p), inb = bboxContains(&b, &p);
    if (!bboxOverlapsBBox(&a, &b)) { VP_WITNESS("disjoint boxes"); __CPROVER_assert(!(ina && inb), "boxes reported non-overlapping share no point (pruning is safe)"); }
#elif defined(BBOXLOOP)
    // bboxFromGeoLoop of a loop with NV vertices (every edge < 180 degrees of longitude or flagged transmeridian)
    LatLng v[NV];
    for (int i = 0; i < NV; i++) {
        v[i].lat = in_f[2 * i] = vp_double_i("in_f", 2 * i); v[i].lng = in_f[2 * i + 1] = vp_double_i("in_f", 2 * i + 1);
        __CPROVER_assume(v[i].lat >= -M_PI_2 && v[i].lat <= M_PI_2 && v[i].lng >= -M_PI && v[i].lng <= M_PI);
    }
    int k = in_n = vp_int("in_n");
    __CPROVER_assume(k >= 0 && k < NV);
    VP_EXCLUDE();
    GeoLoop loop = {.numVerts = NV, .verts = v};
    BBox bb;
    bboxFromGeoLoop(&loop, &bb);
    // well-formed transmeridian loops have vertices on both sides of the antimeridian
    int trans = bb.east < bb.west;
    if (trans) { VP_WITNESS("transmeridian loop"); __CPROVER_assert(bb.east <= 0 && bb.west >= 0 || bb.east == -DBL_MAX || bb.west == DBL_MAX, "transmeridian box: east <= 0 <= west (or one side empty)"); }
    // (a transmeridian loop with a vertex exactly on the prime meridian is wider than 180 degrees: outside the input domain)
    if (!trans || v[k].lng != 0)
        __CPROVER_assert(bboxContains(&bb, &v[k]), "the bounding box contains every vertex of its loop");
    __CPROVER_assert(bb.south <= v[k].lat && v[k].lat <= bb.north, "latitude range covers every vertex");
#elif defined(FLAGS)
    // invalid flags / resolution are rejected before any geometry is touched, nothing is written
    uint32_t flags = in_flags = (uint32_t)vp_u64("in_flags");
    int res = in_res = vp_int("in_res");
    VP_EXCLUDE();
    int badflags = !(flags <= 3);
    int badres = res < 0 || res > 15;
    __CPROVER_assume(badflags || badres);
    LatLng v[3] = {{0.1, 0.1}, {0.2, 0.1}, {0.1, 0.2}};
    // the outer loop has 0-3 vertices: the fill rejects bad arguments for the empty polygon too. The size function is only
    // held to this for >= 1 vertex: on the unchanged tree it answers 0 / E_SUCCESS for a 0-vertex polygon before it looks at
    // res and flags (DESIGN 9.8, recorded as an observation)
    int nv = in_n = vp_int("in_n");
    __CPROVER_assume(nv >= 0 && nv <= 3);
    GeoPolygon poly = {.geoloop = {.numVerts = nv, .verts = v}, .numHoles = 0, .holes = 0};
    H3Index out[2] = {UINT64_C(0x5a5a5a5a5a5a5a5a), UINT64_C(0x5a5a5a5a5a5a5a5a)};
    int64_t sz = -7;
    H3Error e1 = H3_EXPORT(polygonToCellsExperimental)(&poly, res, flags, 2, out);
    H3Error e2 = E_SUCCESS;
    if (nv > 0) e2 = H3_EXPORT(maxPolygonToCellsSizeExperimental)(&poly, res, flags, &sz);
    if (badres) { __CPROVER_assert(e1 == E_RES_DOMAIN && (nv == 0 || e2 == E_RES_DOMAIN), "resolution outside 0-15 -> E_RES_DOMAIN"); }
    else { VP_WITNESS("bad flags"); __CPROVER_assert(e1 == E_OPTION_INVALID && (nv == 0 || e2 == E_OPTION_INVALID), "invalid flags -> E_OPTION_INVALID"); }
    __CPROVER_assert(out[0] == UINT64_C(0x5a5a5a5a5a5a5a5a) && out[1] == UINT64_C(0x5a5a5a5a5a5a5a5a) && sz == -7, "nothing written on error");
    if (badflags) {
        H3Error e3 = H3_EXPORT(polygonToCells)(&poly, res, flags, out);
        H3Error e4 = H3_EXPORT(maxPolygonToCellsSize)(&poly, res, flags, &sz);
        __CPROVER_assert(e3 == E_OPTION_INVALID && e4 == E_OPTION_INVALID, "legacy entry points: invalid flags -> E_OPTION_INVALID");
        __CPROVER_assert(out[0] == UINT64_C(0x5a5a5a5a5a5a5a5a) && sz == -7, "nothing written on error (legacy)");
    }
#elif defined(EMPTY)
    // 0-vertex polygon: empty result for every mode and resolution
    uint32_t flags = in_flags = (uint32_t)vp_u64("in_flags");
    int res = in_res = vp_int("in_res");
    __CPROVER_assume(flags <= 3 && res >= 0 && res <= 15);
    VP_EXCLUDE();
    GeoPolygon poly = {.geoloop = {.numVerts = 0, .verts = 0}, .numHoles = 0, .holes = 0};
    H3Index out[2] = {UINT64_C(0x5a5a5a5a5a5a5a5a), UINT64_C(0x5a5a5a5a5a5a5a5a)};
    int64_t sz = -7;
    H3Error e1 = H3_EXPORT(polygonToCellsExperimental)(&poly, res, flags, 2, out);
    H3Error e2 = H3_EXPORT(maxPolygonToCellsSizeExperimental)(&poly, res, flags, &sz);
    VP_WITNESS("empty polygon");
    __CPROVER_assert(e1 == E_SUCCESS && out[0] == UINT64_C(0x5a5a5a5a5a5a5a5a), "empty polygon yields no cells");
    __CPROVER_assert(e2 == E_SUCCESS && sz == 0, "empty polygon has size bound 0");
#endif
}
