// C04: parent / children tree. Modes: PARENT, SIZE, ITINIT, ITSTEP, CHILDREN
#include "mkcell.h"
#include "spec.h"
#include "baseCells.h"
#include "iterators.h"
#include "faceijk.h"
#include "coordijk.h"
#ifdef LATTICE
#include "up7model.h"
#endif
H3Index in_h, in_y; int in_r, in_p;
#ifndef RES
#define RES 0
#endif
static H3Index spec_parent(H3Index h, int pr) {  // res field replaced, finer digits 7
    uint64_t x = h & ~(UINT64_C(15) << 52);
    x |= (uint64_t)pr << 52;
    for (int r = 1; r <= 15; r++)
        if (r > pr) x |= UINT64_C(7) << (3 * (15 - r));
    return x;
}
static H3Index spec_center_child(H3Index h, int cr) {  // digits res+1..cr zero
    int res = (int)((h >> 52) & 15);
    uint64_t x = h & ~(UINT64_C(15) << 52);
    x |= (uint64_t)cr << 52;
    for (int r = 1; r <= 15; r++)
        if (r > res && r <= cr) x &= ~(UINT64_C(7) << (3 * (15 - r)));
    return x;
}
static int firstNZpos(H3Index x, int p, int c) {
    for (int r = p + 1; r <= c; r++)
        if (H3_GET_INDEX_DIGIT(x, r)) return r;
    return 0;
}
void harness(void) {
#if defined(PARENT)
    H3Index h = in_h = mkcell(RES, "in_h");
    int pr = in_r = vp_int("in_r");
    VP_EXCLUDE();
    H3Index out = UINT64_C(0x5a5a5a5a5a5a5a5a);
    H3Error e = H3_EXPORT(cellToParent)(h, pr, &out);
    if (pr < 0 || pr > 15) {
        __CPROVER_assert(e == E_RES_DOMAIN, "cellToParent: out-of-range resolution -> E_RES_DOMAIN");
    } else if (pr > RES) {
        VP_WITNESS("finer than self");
        __CPROVER_assert(e == E_RES_MISMATCH, "cellToParent: finer than self -> E_RES_MISMATCH");
    } else {
        VP_WITNESS("parent success");
        __CPROVER_assert(e == E_SUCCESS, "cellToParent succeeds for 0 <= parentRes <= res");
        __CPROVER_assert(out == spec_parent(h, pr), "parent = same base cell and digits up to parentRes, finer digits 7");
        __CPROVER_assert(spec_valid_cell(out), "parent is a valid cell");
    }
    if (e != E_SUCCESS) __CPROVER_assert(out == UINT64_C(0x5a5a5a5a5a5a5a5a), "no result on error");
#elif defined(SIZE)
    H3Index h = in_h = mkcell(RES, "in_h");
    int cr = in_r = vp_int("in_r");
    H3Index y = in_y = vp_u64("in_y");
    VP_EXCLUDE();
    int64_t sz = -7;
    H3Index cc = UINT64_C(0x5a5a5a5a5a5a5a5a);
    H3Error e1 = H3_EXPORT(cellToChildrenSize)(h, cr, &sz);
    H3Error e2 = H3_EXPORT(cellToCenterChild)(h, cr, &cc);
    if (cr < RES || cr > 15) {
        VP_WITNESS("domain error");
        __CPROVER_assert(e1 == E_RES_DOMAIN, "cellToChildrenSize: coarser-than-self or out-of-range -> E_RES_DOMAIN");
        __CPROVER_assert(e2 == E_RES_DOMAIN, "cellToCenterChild: coarser-than-self or out-of-range -> E_RES_DOMAIN");
        __CPROVER_assert(sz == -7 && cc == UINT64_C(0x5a5a5a5a5a5a5a5a), "no result on error");
    } else {
        VP_WITNESS("size success");
        int n = cr - RES;
        int64_t p7 = 1;
        for (int i = 0; i < 15; i++) if (i < n) p7 *= 7;
        int64_t want = spec_is_pentagon(h) ? 1 + 5 * (p7 - 1) / 6 : p7;
        __CPROVER_assert(e1 == E_SUCCESS && sz == want, "cellToChildrenSize = 7^n (hexagon) / 1+5(7^n-1)/6 (pentagon)");
        __CPROVER_assert(e2 == E_SUCCESS && cc == spec_center_child(h, cr), "centre child = digits below the cell all 0");
        __CPROVER_assert(spec_valid_cell(cc), "centre child is a valid cell");
        H3Index back = 0;
        __CPROVER_assert(H3_EXPORT(cellToParent)(cc, RES, &back) == E_SUCCESS && back == h, "centre child has the cell as parent");
        // centre child is the smallest valid child: any valid cell y of resolution cr under h is >= cc
        if (spec_valid_cell(y) && (int)((y >> 52) & 15) == cr && spec_parent(y, RES) == h)
            __CPROVER_assert(y >= cc, "centre child is the first child in index order");
    }
#elif defined(ITINIT)
    H3Index P = in_h = mkcell(RES, "in_h");
    int c = in_r = vp_int("in_r");
    VP_EXCLUDE();
    IterCellsChildren it = iterInitParent(P, c);
    if (c < RES || c > 15) {
        __CPROVER_assert(it.h == H3_NULL, "iterator for an invalid child resolution is exhausted");
    } else {
        VP_WITNESS("init ok");
        __CPROVER_assert(it.h == spec_center_child(P, c), "iteration starts at the centre child");
        __CPROVER_assert(it._parentRes == RES && it._skipDigit == (spec_is_pentagon(P) ? c : -1), "Inv established");
    }
#elif defined(ITSTEP)
    // RES is the child resolution here; the parent resolution is symbolic
    H3Index x = in_h = mkcell(RES, "in_h");
    int p = in_p = vp_int("in_p");
    __CPROVER_assume(p >= 0 && p <= RES);
    H3Index y = in_y = mkcell(RES, "in_y");
    VP_EXCLUDE();
    H3Index P = spec_parent(x, p);
    IterCellsChildren it;
    it.h = x; it._parentRes = p;
    int f = firstNZpos(x, p, RES);
    it._skipDigit = spec_is_pentagon(P) ? (f ? f - 1 : RES) : -1;   // Inv(it)
    iterStepChild(&it);
    int yLarger = (spec_parent(y, p) == P && y > x);
    if (it.h == 0) {
        VP_WITNESS("exhaustion branch");
        __CPROVER_assert(!yLarger, "iteration ends only after the largest child");
    } else {
        VP_WITNESS("step branch");
        __CPROVER_assert(spec_valid_cell(it.h), "next child is a valid cell");
        __CPROVER_assert(H3_GET_RESOLUTION(it.h) == RES && spec_parent(it.h, p) == P, "next child has the same parent");
        __CPROVER_assert(it.h > x, "strictly increasing index order");
        __CPROVER_assert(!yLarger || y >= it.h, "no valid child is skipped");
        int f2 = firstNZpos(it.h, p, RES);
        __CPROVER_assert(it._parentRes == p && it._skipDigit == (spec_is_pentagon(P) ? (f2 ? f2 - 1 : RES) : -1), "Inv preserved");
    }
#elif defined(LATTICE)
    // C04.H5: the centre child sits on the same lattice point as its parent (aperture-7 refinement of the parent's address)
    H3Index h = in_h = mkcell(RES, "in_h");
    VP_EXCLUDE();
    H3Index c = spec_center_child(h, RES + 1);
    FaceIJK F1, F2;
    H3Error e1 = _h3ToFaceIjk(h, &F1), e2 = _h3ToFaceIjk(c, &F2);
    __CPROVER_assert(e1 == E_SUCCESS && e2 == E_SUCCESS, "both have a lattice address");
    CoordIJK d = F1.coord;
    if ((RES + 1) % 2) _downAp7(&d); else _downAp7r(&d);
    VP_WITNESS("lattice");
    __CPROVER_assert(F1.face == F2.face && d.i == F2.coord.i && d.j == F2.coord.j && d.k == F2.coord.k, "centre child = the parent's lattice point refined by one aperture-7 step, on the same face");
#elif defined(CHILDREN)
    // concrete depth N (0..2): exact-size buffer with canaries on both sides
    H3Index h = in_h = mkcell(RES, "in_h");
    VP_EXCLUDE();
    int64_t sz = 0;
    H3_EXPORT(cellToChildrenSize)(h, RES + N, &sz);
    H3Index buf[51];
    for (int i = 0; i < 51; i++) buf[i] = UINT64_C(0x5a5a5a5a5a5a5a5a);
    H3Error e = H3_EXPORT(cellToChildren)(h, RES + N, buf + 1);
    __CPROVER_assert(e == E_SUCCESS, "cellToChildren succeeds");
    __CPROVER_assert(buf[0] == UINT64_C(0x5a5a5a5a5a5a5a5a), "no write before the buffer");
    H3Index cc = 0;
    H3_EXPORT(cellToCenterChild)(h, RES + N, &cc);
    __CPROVER_assert(buf[1] == cc, "first child is the centre child");
    for (int i = 0; i < 49; i++) {
        if (i < sz) {
            __CPROVER_assert(spec_valid_cell(buf[1 + i]) && (int)((buf[1 + i] >> 52) & 15) == RES + N, "child valid at the child resolution");
            __CPROVER_assert(spec_parent(buf[1 + i], RES) == h, "child has the cell as parent");
            if (i > 0) __CPROVER_assert(buf[1 + i] > buf[i], "strictly increasing");
        } else
            __CPROVER_assert(buf[1 + i] == UINT64_C(0x5a5a5a5a5a5a5a5a), "exactly cellToChildrenSize cells written");
    }
    __CPROVER_assert(buf[50] == UINT64_C(0x5a5a5a5a5a5a5a5a), "no write after the buffer");
    VP_WITNESS("children");
#endif
}
