// C11 glue: the real cellToVertex / cellToVertexes / isValidVertex with their components replaced by recording
// stubs returning arbitrary in-range values (DESIGN 2.4). Modes GLUE_C2V, GLUE_VALID, GLUE_VERTEXES
#include "vp.h"
#include "spec.h"
#include "h3Index.h"
#include "vertex.h"
#include "algos.h"
#if defined(GLUE_C2V)
uint64_t in_cell; int in_pent, in_v;
int s_dirForV[6]; uint64_t s_nb[7]; int s_rot[7]; int s_vnum[3 * 7]; int s_dfn[3]; int s_pentflag[3];
static H3Index CELL; static int PENT_CELL; static H3Index cand[3];
static int kof(H3Index x) { for (int k = 0; k < 3; k++) if (x == cand[k]) return k; return -1; }
int H3_EXPORT(isPentagon)(H3Index h) { int k = kof(h); __CPROVER_assert(k >= 0, "isPentagon only on the cell or a candidate owner"); return k == 0 ? PENT_CELL : s_pentflag[k]; }
Direction directionForVertexNum(const H3Index o, const int v) { __CPROVER_assert(o == CELL, "directionForVertexNum only on the cell"); int nv = PENT_CELL ? 5 : 6; if (v < 0 || v >= nv) return INVALID_DIGIT; return (Direction)s_dirForV[v]; }
H3Error h3NeighborRotations(H3Index o, Direction d, int *rot, H3Index *out) { __CPROVER_assert(o == CELL && d >= 1 && d <= 6 && *rot == 0, "neighbour step from the cell with rotation 0"); *out = s_nb[d]; *rot = s_rot[d]; return E_SUCCESS; }
int vertexNumForDirection(const H3Index o, const Direction d) { int k = kof(o); __CPROVER_assert(k >= 0 && d >= 1 && d <= 6, "vertexNumForDirection on a candidate owner with a valid direction"); return s_vnum[k * 7 + d]; }
Direction directionForNeighbor(H3Index o, H3Index dest) { int k = kof(o); __CPROVER_assert(k >= 1 && dest == CELL && s_pentflag[k], "directionForNeighbor only from a pentagon owner back to the cell"); return (Direction)s_dfn[k]; }
static const Direction DIRS[6] = {J_AXES_DIGIT, JK_AXES_DIGIT, K_AXES_DIGIT, IK_AXES_DIGIT, I_AXES_DIGIT, IJ_AXES_DIGIT};
static const int rev[7] = {7, 5, 3, 4, 1, 0, 2};
void harness(void) {
    CELL = in_cell = vp_u64("in_cell"); PENT_CELL = in_pent = vp_int("in_pent") & 1;
    int res = H3_GET_RESOLUTION(CELL);
    int nv = PENT_CELL ? 5 : 6;
    for (int v = 0; v < 6; v++) { s_dirForV[v] = vp_int_i("s_dirForV", v); __CPROVER_assume(s_dirForV[v] >= 1 && s_dirForV[v] <= 6); }
    for (int d = 1; d <= 6; d++) { s_nb[d] = vp_u64_i("s_nb", d); s_rot[d] = vp_int_i("s_rot", d);
        __CPROVER_assume(s_rot[d] >= 0 && s_rot[d] < 6 && s_nb[d] != CELL && H3_GET_RESOLUTION(s_nb[d]) == res); }
    int v = in_v = vp_int("in_v");
    VP_EXCLUDE();
    H3Index V = UINT64_C(0x5a5a5a5a5a5a5a5a);
    if (v < 0 || v >= nv) {
        cand[0] = CELL; cand[1] = cand[2] = 0;
        H3Error e = H3_EXPORT(cellToVertex)(CELL, v, &V);
        __CPROVER_assert(e == E_DOMAIN && V == UINT64_C(0x5a5a5a5a5a5a5a5a), "vertex number outside the cell's range -> E_DOMAIN, no result");
        return;
    }
    Direction left = (Direction)s_dirForV[v], right = (Direction)s_dirForV[(v - 1 + nv) % nv];
    __CPROVER_assume(left != right);                                  // contract: directionForVertexNum is injective (C11 VNUMBIJ)
    cand[0] = CELL; cand[1] = s_nb[left]; cand[2] = s_nb[right];
    __CPROVER_assume(cand[1] != cand[2]);                             // contract: distinct directions, distinct neighbours (C05.H2)
    s_pentflag[0] = PENT_CELL; s_pentflag[1] = vp_int_i("s_pentflag", 1) & 1; s_pentflag[2] = vp_int_i("s_pentflag", 2) & 1;
    for (int k = 0; k < 3; k++) for (int d = 1; d <= 6; d++) { s_vnum[k * 7 + d] = vp_int_i("s_vnum", k * 7 + d); __CPROVER_assume(s_vnum[k * 7 + d] >= 0 && s_vnum[k * 7 + d] < (s_pentflag[k] ? 5 : 6)); }
    for (int k = 1; k < 3; k++) { s_dfn[k] = vp_int_i("s_dfn", k); __CPROVER_assume(s_dfn[k] >= 2 && s_dfn[k] <= 6); }
    // contract (C11 CENTREMIN, TRIANGLE): a centre child is smaller than each of its neighbours; left and right are neighbours
    int centre = (res != 0 && H3_GET_INDEX_DIGIT(CELL, res) == 0);
    int leftCentre = (res != 0 && H3_GET_INDEX_DIGIT(cand[1], res) == 0);
    __CPROVER_assume(!centre || (cand[1] > CELL && cand[2] > CELL));
    __CPROVER_assume(!leftCentre || (cand[2] > cand[1] && CELL > cand[1]));
    H3Error e = H3_EXPORT(cellToVertex)(CELL, v, &V);
    __CPROVER_assert(e == E_SUCCESS, "cellToVertex succeeds for an in-range vertex number");
    // specification: owner = minimum of the three cells sharing the corner; vertex number as seen from the owner
    H3Index owner = CELL; int k = 0;
    if (cand[1] < owner) { owner = cand[1]; k = 1; }
    if (cand[2] < owner) { owner = cand[2]; k = 2; }
    int num;
    if (k == 0) num = v;
    else {
        Direction dcell = (k == 1) ? left : right;
        Direction back = s_pentflag[k] ? (Direction)s_dfn[k] : DIRS[(rev[dcell] + s_rot[dcell]) % 6];
        num = s_vnum[k * 7 + back];
        if (k == 1) { num = num + 1; if (num == (s_pentflag[k] ? 5 : 6)) num = 0; }
        if (k == 1) VP_WITNESS("left owner"); else VP_WITNESS("right owner");
    }
    H3Index exp = owner; H3_SET_MODE(exp, H3_VERTEX_MODE); H3_SET_RESERVED_BITS(exp, num);
    __CPROVER_assert(V == exp, "vertex index = (smallest of the three cells, its own number for this corner), mode 4");
}
#elif defined(GLUE_VALID)
uint64_t in_x, in_canon; int in_err;
static int calls;
H3Error H3_EXPORT(cellToVertex)(H3Index cell, int vertexNum, H3Index *out) {
    calls++;
    __CPROVER_assert(cell == ((in_x & ~(UINT64_C(15) << 59) & ~(UINT64_C(7) << 56)) | (UINT64_C(1) << 59)) && vertexNum == (int)((in_x >> 56) & 7), "re-derivation from (owner, vertex number)");
    if (in_err) return (H3Error)in_err;
    *out = in_canon; return E_SUCCESS;
}
void harness(void) {
    in_x = vp_u64("in_x"); in_canon = vp_u64("in_canon"); in_err = vp_int("in_err");
    __CPROVER_assume(in_err >= 0 && in_err <= 15);
    // contract of the stubbed cellToVertex (proved by glue_cellToVertex + CENTREMIN): a centre child of resolution >= 1
    // owns all its corners, so for it cellToVertex(owner, n) reproduces (owner, n) for every in-range n and fails otherwise.
    // (A shortcut in isValidVertex that relies on this fact is therefore accepted; one that misapplies it is not.)
    {
        uint64_t ow = (in_x & ~(UINT64_C(15) << 59) & ~(UINT64_C(7) << 56)) | (UINT64_C(1) << 59);
        int r = (int)((ow >> 52) & 15), num = (int)((in_x >> 56) & 7);
        if (spec_valid_cell(ow) && r >= 1 && ((ow >> (3 * (15 - r))) & 7) == 0) {
            int nv = spec_is_pentagon(ow) ? 5 : 6;
            if (num < nv) __CPROVER_assume(in_err == 0 && in_canon == (ow & ~(UINT64_C(15) << 59) | (UINT64_C(4) << 59) | ((uint64_t)num << 56)));
            else __CPROVER_assume(in_err != 0);
        }
    }
    VP_EXCLUDE();
    int got = H3_EXPORT(isValidVertex)(in_x);
    uint64_t owner = (in_x & ~(UINT64_C(15) << 59) & ~(UINT64_C(7) << 56)) | (UINT64_C(1) << 59);
    int ref = ((in_x >> 59) & 15) == 4 && !(in_x >> 63) && spec_valid_cell(owner) && in_err == 0 && in_canon == in_x;
    if (got) VP_WITNESS("accepted");
    __CPROVER_assert((got != 0) == (ref != 0), "isValidVertex <=> mode 4, valid owner cell, and cellToVertex(owner, number) reproduces the index");
}
#elif defined(GLUE_V2LL)
// vertexToLatLng: the point returned for (owner, n) is the owner's n-th TOPOLOGICAL corner. The boundary generators are
// replaced by a semantic stub: it emits the requested run of topological corners tagged (lat = corner number) and, as the
// real code does at odd resolutions, may insert distortion points (tagged lat < 0) in front of any corner after the first.
#include "faceijk.h"
uint64_t in_x; int in_pent, in_err; int s_dist[12];
int H3_EXPORT(isPentagon)(H3Index h) { return in_pent; }
H3Error _h3ToFaceIjk(H3Index h, FaceIJK *f) { f->face = 0; f->coord.i = f->coord.j = f->coord.k = 0; return (H3Error)in_err; }
static void emit(int nverts, int start, int length, CellBoundary *g) {
    __CPROVER_assert(start >= 0 && start < nverts && length >= 1 && length <= nverts, "boundary generator called with a valid run of corners");
    g->numVerts = 0;
    int extra = (length == nverts) ? 1 : 0;   // closing iteration: may add a distortion point on the last edge
    for (int v = start; v < start + length + extra; v++) {
        if (v > start && s_dist[v % 12] && g->numVerts < MAX_CELL_BNDRY_VERTS) { g->verts[g->numVerts].lat = -1.0 - (v % nverts); g->verts[g->numVerts].lng = 0; g->numVerts++; }
        if (v < start + length && g->numVerts < MAX_CELL_BNDRY_VERTS) { g->verts[g->numVerts].lat = (double)(v % nverts); g->verts[g->numVerts].lng = 1; g->numVerts++; }
    }
}
void _faceIjkPentToCellBoundary(const FaceIJK *h, int res, int start, int length, CellBoundary *g) { __CPROVER_assert(in_pent, "pentagon generator for pentagon owners"); emit(5, start, length, g); }
void _faceIjkToCellBoundary(const FaceIJK *h, int res, int start, int length, CellBoundary *g) { __CPROVER_assert(!in_pent, "hexagon generator for hexagon owners"); emit(6, start, length, g); }
void harness(void) {
    in_x = vp_u64("in_x"); in_pent = vp_int("in_pent") & 1; in_err = vp_int("in_err");
    __CPROVER_assume(in_err >= 0 && in_err <= 15);
    for (int i = 0; i < 12; i++) s_dist[i] = vp_int_i("s_dist", i) & 1;
    int num = (int)((in_x >> 56) & 7);
    __CPROVER_assume(num < (in_pent ? 5 : 6));   // vertex numbers of the owner (isValidVertex / cellToVertex guarantee this)
    VP_EXCLUDE();
    LatLng out = {99, 99};
    H3Error e = H3_EXPORT(vertexToLatLng)(in_x, &out);
    if (in_err) { __CPROVER_assert(e == (H3Error)in_err, "conversion error passed through"); return; }
    VP_WITNESS("v2ll");
    __CPROVER_assert(e == E_SUCCESS && out.lat == (double)num && out.lng == 1, "vertexToLatLng(owner, n) is the owner's n-th topological corner (never a distortion point, never another corner)");
}
#elif defined(GLUE_VERTEXES)
uint64_t in_cell; int in_pent; uint64_t s_v[6]; int s_e[6];
int H3_EXPORT(isPentagon)(H3Index h) { __CPROVER_assert(h == in_cell, "isPentagon on the cell"); return in_pent; }
H3Error H3_EXPORT(cellToVertex)(H3Index cell, int v, H3Index *out) {
    __CPROVER_assert(cell == in_cell && v >= 0 && v < (in_pent ? 5 : 6), "cellToVertex(cell, i) for the cell's own vertex numbers only");
    if (s_e[v]) return (H3Error)s_e[v];
    *out = s_v[v]; return E_SUCCESS;
}
void harness(void) {
    in_cell = vp_u64("in_cell"); in_pent = vp_int("in_pent") & 1;
    for (int i = 0; i < 6; i++) { s_v[i] = vp_u64_i("s_v", i); s_e[i] = vp_int_i("s_e", i); __CPROVER_assume(s_e[i] >= 0 && s_e[i] <= 15); }
    VP_EXCLUDE();
    H3Index out[8];
    for (int i = 0; i < 8; i++) out[i] = UINT64_C(0x5a5a5a5a5a5a5a5a);
    H3Error e = H3_EXPORT(cellToVertexes)(in_cell, out + 1);
    int n = in_pent ? 5 : 6, firstErr = 0;
    for (int i = 0; i < 6; i++) if (i < n && !firstErr && s_e[i]) firstErr = s_e[i];
    __CPROVER_assert(e == (H3Error)firstErr, "cellToVertexes propagates the first cellToVertex error, else succeeds");
    if (!firstErr) {
        VP_WITNESS("all ok");
        for (int i = 0; i < 6; i++) {
            if (i < n) __CPROVER_assert(out[1 + i] == s_v[i], "slot i = cellToVertex(cell, i)");
            else __CPROVER_assert(out[1 + i] == 0, "pentagon: slot 5 is null");
        }
    }
    __CPROVER_assert(out[0] == UINT64_C(0x5a5a5a5a5a5a5a5a) && out[7] == UINT64_C(0x5a5a5a5a5a5a5a5a), "exactly six slots");
}
#endif
