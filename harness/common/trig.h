// S-TRIG: contract stubs for libm transcendental functions
#ifndef VP_NATIVE
double nondet_double(void);
static int vp_isnan(double x){ return x!=x; }
double sin(double x){ double r=nondet_double(); if(vp_isnan(x)||x-x!=0.0){ __CPROVER_assume(r!=r); return r;} __CPROVER_assume(r>=-1.0&&r<=1.0); return r; }
double cos(double x){ double r=nondet_double(); if(vp_isnan(x)||x-x!=0.0){ __CPROVER_assume(r!=r); return r;} __CPROVER_assume(r>=-1.0&&r<=1.0); return r; }
double tan(double x){ double r=nondet_double(); if(vp_isnan(x)||x-x!=0.0){ __CPROVER_assume(r!=r); return r;} return r; }
double atan(double x){ double r=nondet_double(); if(vp_isnan(x)){ __CPROVER_assume(r!=r); return r;} __CPROVER_assume(r>=-1.5707963267948968&&r<=1.5707963267948968); return r; }
double atan2(double y,double x){ double r=nondet_double(); if(vp_isnan(x)||vp_isnan(y)){ __CPROVER_assume(r!=r); return r;} __CPROVER_assume(r>=-3.1415926535897936&&r<=3.1415926535897936); return r; }
double asin(double x){ double r=nondet_double(); if(vp_isnan(x)||x>1.0||x<-1.0){ __CPROVER_assume(r!=r); return r;} __CPROVER_assume(r>=-1.5707963267948968&&r<=1.5707963267948968); return r; }
double acos(double x){ double r=nondet_double(); if(vp_isnan(x)||x>1.0||x<-1.0){ __CPROVER_assume(r!=r); return r;} __CPROVER_assume(r>=0.0&&r<=3.1415926535897936); return r; }

#endif
