// symbolic valid cell of a compile-time resolution (DESIGN 2.2); justified by C01.H1
#ifndef VP_MKCELL_H
#define VP_MKCELL_H
#include "vp.h"
#include "h3Index.h"
static inline H3Index mkcell_from(int res, uint64_t x) {
#ifdef VP_NATIVE
    H3Index h = x;
    __CPROVER_assume(H3_GET_RESOLUTION(h) == res);
#else
    uint64_t lowmask = (res >= 15) ? 0 : ((UINT64_C(1) << (3 * (15 - res))) - 1);
    H3Index h = (x & ((UINT64_C(1) << 52) - 1)) | lowmask;
    h |= ((uint64_t)res << 52) | (UINT64_C(1) << 59);
#endif
    __CPROVER_assume(H3_EXPORT(isValidCell)(h));
    return h;
}
static inline H3Index mkcell(int res, const char *name) { return mkcell_from(res, vp_u64(name)); }
#endif
