// L-UP7: integer models of the aperture-7 parent functions, division-free (q chosen by the solver, pinned by
// assume). Justified by the lemma jobs (harness/L_up7.c) that prove the REAL _upAp7/_upAp7r (lround(n*M_ONESEVENTH))
// equal to nearest-integer division on |i|,|j|,|k| <= UPB; every use asserts that precondition.
// Linked only when coordijk.c is compiled with -D_upAp7=_upAp7_real -D_upAp7r=_upAp7r_real.
#ifndef VP_NATIVE
#include "coordijk.h"
#ifndef UPB
#define UPB (1 << 12)
#endif
int nondet_int(void);
static int vp_rdiv7(int n) {
    int q = nondet_int();
    __CPROVER_assume(q >= -(1 << 27) && q <= (1 << 27));
    __CPROVER_assume(7 * q - 3 <= n && n <= 7 * q + 3);
    return q;
}
void _upAp7(CoordIJK *ijk) {
    __CPROVER_assert(ijk->i >= -UPB && ijk->i <= UPB && ijk->j >= -UPB && ijk->j <= UPB && ijk->k >= -UPB && ijk->k <= UPB, "L-UP7 model used inside its proved range");
    int i = ijk->i - ijk->k, j = ijk->j - ijk->k;
    ijk->i = vp_rdiv7(3 * i - j);
    ijk->j = vp_rdiv7(i + 2 * j);
    ijk->k = 0;
    _ijkNormalize(ijk);
}
void _upAp7r(CoordIJK *ijk) {
    __CPROVER_assert(ijk->i >= -UPB && ijk->i <= UPB && ijk->j >= -UPB && ijk->j <= UPB && ijk->k >= -UPB && ijk->k <= UPB, "L-UP7 model used inside its proved range");
    int i = ijk->i - ijk->k, j = ijk->j - ijk->k;
    ijk->i = vp_rdiv7(2 * i + j);
    ijk->j = vp_rdiv7(3 * j - i);
    ijk->k = 0;
    _ijkNormalize(ijk);
}
#ifdef UP7_CHECKED
H3Error _upAp7Checked(CoordIJK *ijk) {
    __CPROVER_assert(ijk->i >= 0 && ijk->i <= UPB && ijk->j >= 0 && ijk->j <= UPB && ijk->k >= 0 && ijk->k <= UPB, "L-UP7 checked model used inside its proved range");
    _upAp7(ijk);
    return E_SUCCESS;
}
H3Error _upAp7rChecked(CoordIJK *ijk) {
    __CPROVER_assert(ijk->i >= 0 && ijk->i <= UPB && ijk->j >= 0 && ijk->j <= UPB && ijk->k >= 0 && ijk->k <= UPB, "L-UP7 checked model used inside its proved range");
    _upAp7r(ijk);
    return E_SUCCESS;
}
#endif
#endif
