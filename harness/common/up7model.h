// integer models of the aperture-7 parent functions, division-free (q chosen by the solver, pinned by assume)
#ifndef VP_NATIVE
#include "coordijk.h"
#define UPB (1<<26)
int nondet_int(void);
static int rdiv7(int n){ int q=nondet_int(); __CPROVER_assume(q>=-(1<<27)&&q<=(1<<27)); __CPROVER_assume(7*q-3<=n && n<=7*q+3); return q; }
void _upAp7(CoordIJK *ijk){
  __CPROVER_assert(ijk->i>=-UPB&&ijk->i<=UPB&&ijk->j>=-UPB&&ijk->j<=UPB&&ijk->k>=-UPB&&ijk->k<=UPB,"upAp7 stub precondition");
  int i=ijk->i-ijk->k, j=ijk->j-ijk->k;
  ijk->i=rdiv7(3*i-j); ijk->j=rdiv7(i+2*j); ijk->k=0; _ijkNormalize(ijk);
}
void _upAp7r(CoordIJK *ijk){
  __CPROVER_assert(ijk->i>=-UPB&&ijk->i<=UPB&&ijk->j>=-UPB&&ijk->j<=UPB&&ijk->k>=-UPB&&ijk->k<=UPB,"upAp7r stub precondition");
  int i=ijk->i-ijk->k, j=ijk->j-ijk->k;
  ijk->i=rdiv7(2*i+j); ijk->j=rdiv7(3*j-i); ijk->k=0; _ijkNormalize(ijk);
}

#endif
