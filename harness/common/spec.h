// Independent transcription of the documented cell layout (website/docs/library/index/cell.md, C01 statement).
#ifndef VP_SPEC_H
#define VP_SPEC_H
#include <stdint.h>
static inline int spec_is_pent_bc(int bc) {
    return bc == 4 || bc == 14 || bc == 24 || bc == 38 || bc == 49 || bc == 58 || bc == 63 || bc == 72 || bc == 83 ||
           bc == 97 || bc == 107 || bc == 117;
}
static inline int spec_valid_cell(uint64_t h) {
    if (h >> 63) return 0;
    if (((h >> 59) & 15) != 1) return 0;
    if (((h >> 56) & 7) != 0) return 0;
    int res = (int)((h >> 52) & 15);
    int bc = (int)((h >> 45) & 127);
    if (bc >= 122) return 0;
    int pent = spec_is_pent_bc(bc);
    int seenNZ = 0;
    for (int r = 1; r <= 15; r++) {
        int d = (int)((h >> (3 * (15 - r))) & 7);
        if (r <= res) {
            if (d == 7) return 0;
            if (pent && !seenNZ && d != 0) {
                if (d == 1) return 0;
                seenNZ = 1;
            }
        } else if (d != 7)
            return 0;
    }
    return 1;
}
static inline int spec_is_pentagon(uint64_t h) {  // for valid cells
    int res = (int)((h >> 52) & 15), bc = (int)((h >> 45) & 127);
    if (!spec_is_pent_bc(bc)) return 0;
    for (int r = 1; r <= 15; r++)
        if (r <= res && ((h >> (3 * (15 - r))) & 7)) return 0;
    return 1;
}
#endif
