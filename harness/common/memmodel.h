// own models of memcpy/memset: CBMC's built-ins mishandle symbolic lengths (DESIGN A.7)
#ifndef VP_NATIVE
#include <stddef.h>
#include <stdint.h>
void *memcpy(void *d, const void *s, size_t n){ __CPROVER_assert(n%8==0,"word-sized copy"); for(size_t i=0;i<n/8;i++) ((uint64_t*)d)[i]=((const uint64_t*)s)[i]; return d; }
void *memset(void *d, int c, size_t n){ __CPROVER_assert(n%8==0&&c==0,"word-sized zeroing"); for(size_t i=0;i<n/8;i++) ((uint64_t*)d)[i]=0; return d; }

#endif
