// own models of memcpy/memset/memmove: CBMC's built-ins mishandle symbolic lengths (DESIGN A.7)
#ifndef VP_NATIVE
#include <stddef.h>
#include <stdint.h>
void *memcpy(void *d, const void *s, size_t n) {
    if (n % 8 == 0) { for (size_t i = 0; i < n / 8; i++) ((uint64_t *)d)[i] = ((const uint64_t *)s)[i]; }
    else if (n % 4 == 0) { for (size_t i = 0; i < n / 4; i++) ((uint32_t *)d)[i] = ((const uint32_t *)s)[i]; }
    else { for (size_t i = 0; i < n; i++) ((unsigned char *)d)[i] = ((const unsigned char *)s)[i]; }
    return d;
}
void *memset(void *d, int c, size_t n) {
    unsigned char b = (unsigned char)c;
    if (n % 8 == 0) { uint64_t w = b * UINT64_C(0x0101010101010101); for (size_t i = 0; i < n / 8; i++) ((uint64_t *)d)[i] = w; }
    else if (n % 4 == 0) { uint32_t w = b * UINT32_C(0x01010101); for (size_t i = 0; i < n / 4; i++) ((uint32_t *)d)[i] = w; }
    else { for (size_t i = 0; i < n; i++) ((unsigned char *)d)[i] = b; }
    return d;
}
#endif
