// S-FMT: interpretive model of sprintf/snprintf/sscanf for %[0][width][hh|h|l|ll|j|z]{x,X,u,d} (C11 7.21.6).
// The model parses the format string the real code passes, so a change of format, length modifier or
// function (sprintf -> snprintf) in h3ToString/stringToH3 is followed by the encoding.
// Validated against the sandbox libc by harness/native/fmt_diff.c on every run of C20.
#ifndef VP_FMT_H
#define VP_FMT_H
static int vpf_hexval(char c) {
    if (c >= '0' && c <= '9') return c - '0';
    if (c >= 'a' && c <= 'f') return c - 'a' + 10;
    if (c >= 'A' && c <= 'F') return c - 'A' + 10;
    return -1;
}
#if !defined(VP_NATIVE) || defined(VP_FMT_DIFF)
#include <stdarg.h>
#include <stddef.h>
#include <stdint.h>
#ifdef VP_FMT_DIFF
#define VPF(n) vpmodel_##n
#define VPF_ASSERT(c, m) do { if (!(c)) vpmodel_unsupported = 1; } while (0)
static int vpmodel_unsupported = 0;
#else
#define VPF(n) n
#define VPF_ASSERT(c, m) __CPROVER_assert(c, m)
#endif
// cap == (size_t)-1: unbounded (sprintf)
static int vpf_vformat(char *str, size_t cap, const char *fmt, va_list ap) {
    size_t n = 0;
#define VPF_PUT(ch) do { if (n + 1 < cap) str[n] = (ch); n++; } while (0)
    for (int p = 0; fmt[p]; p++) {
        if (fmt[p] != '%') { VPF_PUT(fmt[p]); continue; }
        p++;
        if (fmt[p] == '%') { VPF_PUT('%'); continue; }
        int zero = 0, width = 0, lng = 0, small = 0;
        if (fmt[p] == '0') { zero = 1; p++; }
        while (fmt[p] >= '0' && fmt[p] <= '9') { width = width * 10 + (fmt[p] - '0'); p++; }
        while (fmt[p] == 'l') { lng++; p++; }
        if (fmt[p] == 'j' || fmt[p] == 'z') { lng = 2; p++; }
        while (fmt[p] == 'h') { small++; p++; }
        char conv = fmt[p];
        VPF_ASSERT(conv == 'x' || conv == 'X' || conv == 'u' || conv == 'd', "S-FMT: conversion not modelled");
        uint64_t v; int neg = 0;
        if (conv == 'd') {
            int64_t sv = lng ? va_arg(ap, int64_t) : (int64_t)va_arg(ap, int);
            if (small == 1) sv = (short)sv; else if (small >= 2) sv = (signed char)sv;
            if (sv < 0) { neg = 1; v = (uint64_t)0 - (uint64_t)sv; } else v = (uint64_t)sv;
        } else {
            v = lng ? va_arg(ap, uint64_t) : (uint64_t)va_arg(ap, unsigned int);
            if (small == 1) v = (unsigned short)v; else if (small >= 2) v = (unsigned char)v;
        }
        char tmp[24]; int nd = 0;
        unsigned base = (conv == 'x' || conv == 'X') ? 16 : 10;
        do {
            int d = (int)(v % base);
            tmp[nd++] = (char)(d < 10 ? '0' + d : (conv == 'x' ? 'a' : 'A') + d - 10);
            v /= base;
        } while (v);
        int len = nd + neg;
        if (zero) { if (neg) VPF_PUT('-'); for (int k = len; k < width; k++) VPF_PUT('0'); }
        else { for (int k = len; k < width; k++) VPF_PUT(' '); if (neg) VPF_PUT('-'); }
        while (nd > 0) { char ch = tmp[--nd]; VPF_PUT(ch); }
    }
    if (cap > 0) str[n < cap ? n : cap - 1] = 0;
#undef VPF_PUT
    return (int)n;
}
int VPF(sprintf)(char *str, const char *fmt, ...) {
    va_list ap; va_start(ap, fmt);
    int r = vpf_vformat(str, (size_t)-1, fmt, ap);
    va_end(ap); return r;
}
int VPF(snprintf)(char *str, size_t cap, const char *fmt, ...) {
    va_list ap; va_start(ap, fmt);
    int r = vpf_vformat(str, cap, fmt, ap);
    va_end(ap); return r;
}
static int vpf_vscan(const char *s, const char *fmt, va_list ap) {
    VPF_ASSERT(fmt[0] == '%', "S-FMT: single conversion");
    int p = 1, lng = 0;
    while (fmt[p] == 'l') { lng++; p++; }
    if (fmt[p] == 'j' || fmt[p] == 'z') { lng = 2; p++; }
    char conv = fmt[p];
    VPF_ASSERT((conv == 'x' || conv == 'X' || conv == 'u' || conv == 'd') && fmt[p + 1] == 0, "S-FMT: scan conversion not modelled");
    int i = 0;
    while (s[i] == ' ' || s[i] == '\t' || s[i] == '\n' || s[i] == '\v' || s[i] == '\f' || s[i] == '\r') i++;
    int neg = 0;
    int start = i;
    if (s[i] == '+' || s[i] == '-') { neg = (s[i] == '-'); i++; }
    int hex = (conv == 'x' || conv == 'X');
    if (hex && s[i] == '0' && (s[i + 1] == 'x' || s[i + 1] == 'X') && vpf_hexval(s[i + 2]) >= 0) i += 2;
    int dv = hex ? vpf_hexval(s[i]) : ((s[i] >= '0' && s[i] <= '9') ? s[i] - '0' : -1);
    if (dv < 0) return (s[i] == 0 && i == start) ? -1 : 0;
    uint64_t v = 0;
    for (;;) {
        dv = hex ? vpf_hexval(s[i]) : ((s[i] >= '0' && s[i] <= '9') ? s[i] - '0' : -1);
        if (dv < 0) break;
        v = hex ? ((v << 4) | (uint64_t)dv) : (v * 10 + (uint64_t)dv);
        i++;
    }
    if (neg) v = (uint64_t)0 - v;
    if (lng) *va_arg(ap, uint64_t *) = v; else *va_arg(ap, unsigned int *) = (unsigned int)v;
    return 1;
}
int VPF(sscanf)(const char *s, const char *fmt, ...) {
    va_list ap; va_start(ap, fmt);
    int r = vpf_vscan(s, fmt, ap);
    va_end(ap); return r;
}
// small <string.h>/<ctype.h>/<stdlib.h> models a re-implementation of the two functions may reach for (C11 7.24, 7.4, 7.22.1.4)
size_t VPF(strspn)(const char *s, const char *accept) {
    size_t n = 0;
    for (;; n++) { if (!s[n]) return n; int ok = 0; for (size_t k = 0; accept[k]; k++) if (accept[k] == s[n]) ok = 1; if (!ok) return n; }
}
size_t VPF(strcspn)(const char *s, const char *reject) {
    size_t n = 0;
    for (;; n++) { if (!s[n]) return n; for (size_t k = 0; reject[k]; k++) if (reject[k] == s[n]) return n; }
}
int VPF(isxdigit)(int c) { return vpf_hexval((char)c) >= 0 && c >= 0 && c < 128; }
int VPF(isdigit)(int c) { return c >= '0' && c <= '9'; }
int VPF(isspace)(int c) { return c == ' ' || c == '\t' || c == '\n' || c == '\v' || c == '\f' || c == '\r'; }
unsigned long long VPF(strtoull)(const char *s, char **end, int base) {
    VPF_ASSERT(base == 16 || base == 10 || base == 0, "S-FMT: strtoull base not modelled");
    int i = 0;
    while (VPF(isspace)(s[i])) i++;
    int neg = 0;
    if (s[i] == '+' || s[i] == '-') { neg = (s[i] == '-'); i++; }
    int b = base;
    if ((b == 16 || b == 0) && s[i] == '0' && (s[i + 1] == 'x' || s[i + 1] == 'X') && vpf_hexval(s[i + 2]) >= 0) { i += 2; b = 16; }
    else if (b == 0) b = (s[i] == '0') ? 8 : 10;
    VPF_ASSERT(b != 8, "S-FMT: octal not modelled");
    unsigned long long v = 0; int any = 0, ovf = 0;
    for (;;) {
        int d = vpf_hexval(s[i]);
        if (d < 0 || d >= b) break;
        if (v > (~0ULL - (unsigned)d) / (unsigned)b) ovf = 1;
        v = v * (unsigned)b + (unsigned)d; any = 1; i++;
    }
    if (end) *end = (char *)(any ? s + i : s);
    if (ovf) return ~0ULL;
    return neg ? (0ULL - v) : v;
}
unsigned long VPF(strtoul)(const char *s, char **end, int base) { return (unsigned long)VPF(strtoull)(s, end, base); }
#ifndef VP_FMT_DIFF
int __isoc99_sscanf(const char *s, const char *fmt, ...) {
    va_list ap; va_start(ap, fmt);
    int r = vpf_vscan(s, fmt, ap);
    va_end(ap); return r;
}
#endif
#endif
#endif
