// S-FMT: interpretive model of sprintf/sscanf for %[0][width][l|ll]{x,X} (C11 7.21.6)
#ifndef VP_NATIVE
#include <stdarg.h>
#include <stddef.h>
#include <stdint.h>
static int hexval(char c){ if(c>='0'&&c<='9')return c-'0'; if(c>='a'&&c<='f')return c-'a'+10; if(c>='A'&&c<='F')return c-'A'+10; return -1; }
int sprintf(char *str, const char *fmt, ...){
  va_list ap; va_start(ap,fmt); int n=0;
  for(int p=0; fmt[p]; p++){
    if(fmt[p]!='%'){ str[n++]=fmt[p]; continue; }
    p++; int zero=0,width=0,lng=0;
    if(fmt[p]=='0'){zero=1;p++;}
    while(fmt[p]>='0'&&fmt[p]<='9'){ width=width*10+(fmt[p]-'0'); p++; }
    while(fmt[p]=='l'){lng++;p++;}
    char conv=fmt[p]; __CPROVER_assert(conv=='x'||conv=='X',"S-FMT: only %x/%X modelled");
    uint64_t v = lng? va_arg(ap,uint64_t) : (uint64_t)va_arg(ap,unsigned int);
    char tmp[16]; int nd=0; do{ int d=v&15; tmp[nd++]=(char)(d<10?'0'+d:(conv=='x'?'a':'A')+d-10); v>>=4; }while(v);
    for(int k=nd;k<width;k++) str[n++]= zero?'0':' ';
    while(nd>0) str[n++]=tmp[--nd];
  }
  str[n]=0; va_end(ap); return n;
}
int sscanf(const char *s, const char *fmt, ...){
  va_list ap; va_start(ap,fmt);
  __CPROVER_assert(fmt[0]=='%',"S-FMT: single conversion"); int p=1,lng=0; while(fmt[p]=='l'){lng++;p++;}
  __CPROVER_assert((fmt[p]=='x'||fmt[p]=='X')&&fmt[p+1]==0,"S-FMT: only %x modelled");
  int i=0; while(s[i]==' '||s[i]=='\t'||s[i]=='\n'||s[i]=='\v'||s[i]=='\f'||s[i]=='\r') i++;
  int neg=0; if(s[i]=='+'||s[i]=='-'){neg=(s[i]=='-');i++;}
  if(s[i]=='0'&&(s[i+1]=='x'||s[i+1]=='X')&&hexval(s[i+2])>=0) i+=2;
  if(hexval(s[i])<0){ va_end(ap); return s[i]==0&&i==0?-1:0; }
  uint64_t v=0; while(hexval(s[i])>=0){ v=(v<<4)|(uint64_t)hexval(s[i]); i++; }
  if(neg) v=(uint64_t)0-v;
  if(lng) *va_arg(ap,uint64_t*)=v; else *va_arg(ap,unsigned int*)=(unsigned int)v;
  va_end(ap); return 1;
}

#endif
