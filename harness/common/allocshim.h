// S-ALLOC: H3_ALLOC_PREFIX=vp_ allocator whose failure schedule is a symbolic bit-vector (in_fail[i] = the i-th
// allocation fails). Ghost counters: live blocks, failures, frees of a non-live pointer.
#ifndef VP_ALLOCSHIM_H
#define VP_ALLOCSHIM_H
#include "vp.h"
#include <stdlib.h>
#define VP_MAXALLOC 12
_Bool in_fail[VP_MAXALLOC];
int vp_nalloc = 0, vp_live = 0, vp_failed = 0, vp_badfree = 0;
static void *vp_blocks[VP_MAXALLOC];
static void vp_alloc_init(void) { for (int i = 0; i < VP_MAXALLOC; i++) { in_fail[i] = vp_bool_i("in_fail", i); vp_blocks[i] = 0; } }
static void *vp_track(void *p, int idx) { __CPROVER_assume(p != 0); vp_blocks[idx] = p; vp_live++; return p; }
void *vp_malloc(size_t s) {
    __CPROVER_assert(vp_nalloc < VP_MAXALLOC, "S-ALLOC: allocation budget of the harness");
    int idx = vp_nalloc++;
    if (in_fail[idx]) { vp_failed++; return 0; }
    return vp_track(malloc(s ? s : 1), idx);
}
void *vp_calloc(size_t n, size_t s) {
    __CPROVER_assert(vp_nalloc < VP_MAXALLOC, "S-ALLOC: allocation budget of the harness");
    int idx = vp_nalloc++;
    if (in_fail[idx]) { vp_failed++; return 0; }
    return vp_track(calloc(n ? n : 1, s ? s : 1), idx);
}
void *vp_realloc(void *p, size_t s) { __CPROVER_assert(0, "S-ALLOC: realloc is not used by the library"); return 0; }
void vp_free(void *p) {
    if (!p) return;
    int found = 0;
    for (int i = 0; i < VP_MAXALLOC; i++) if (vp_blocks[i] == p) { vp_blocks[i] = 0; found = 1; break; }
    if (!found) { vp_badfree++; __CPROVER_assert(0, "no block is freed twice (or freed without being allocated)"); return; }
    vp_live--;
    free(p);
}
#endif
