// S-ALLOC: H3_ALLOC_PREFIX=vp_ allocator whose failure schedule is a symbolic bit-vector (in_fail[i] = the i-th
// allocation fails). Ghost counters: live blocks, failures, frees of a non-live pointer.
#ifndef VP_ALLOCSHIM_H
#define VP_ALLOCSHIM_H
#include "vp.h"
#include <stdlib.h>
#ifndef VP_MAXALLOC
#define VP_MAXALLOC 12
#endif
_Bool in_fail[VP_MAXALLOC];
int vp_nalloc = 0, vp_live = 0, vp_failed = 0;
static void vp_alloc_init(void) { for (int i = 0; i < VP_MAXALLOC; i++) in_fail[i] = vp_bool_i("in_fail", i); }
static _Bool vp_should_fail(void) {
    __CPROVER_assert(vp_nalloc < VP_MAXALLOC, "S-ALLOC: allocation budget of the harness");
    _Bool f = in_fail[vp_nalloc];
    vp_nalloc++;
    if (f) vp_failed++;
    return f;
}
void *vp_malloc(size_t s) {
    if (vp_should_fail()) return 0;
#ifdef VP_FIXED_ALLOC
    // functional jobs only: every block has the same constant size (a symbolic allocation size forces CBMC into its
    // unbounded-array encoding); the request must fit, over-allocation cannot change the function's result
    __CPROVER_assert(s <= VP_FIXED_ALLOC, "S-ALLOC: request fits the fixed block");
    void *p = malloc(VP_FIXED_ALLOC);
#else
    void *p = malloc(s ? s : 1);
#endif
    __CPROVER_assume(p != 0);
    vp_live++;
    return p;
}
void *vp_calloc(size_t n, size_t s) {
    if (vp_should_fail()) return 0;
#ifdef VP_FIXED_ALLOC
    __CPROVER_assert(n <= VP_FIXED_ALLOC && s <= VP_FIXED_ALLOC && n * s <= VP_FIXED_ALLOC, "S-ALLOC: request fits the fixed block");
    void *p = calloc(VP_FIXED_ALLOC, 1);
#else
    void *p = calloc(n ? n : 1, s ? s : 1);
#endif
    __CPROVER_assume(p != 0);
    vp_live++;
    return p;
}
void *vp_realloc(void *p, size_t s) { __CPROVER_assert(0, "S-ALLOC: realloc is not used by the library"); return 0; }
// double free / free of a non-heap pointer: CBMC's built-in preconditions of free() ("double free", "free argument
// must be dynamic object") are proof obligations of every job; natively ASan reports them.
void vp_free(void *p) {
    if (!p) return;
    vp_live--;
    free(p);
}
#endif
