// C11 components on the real code: CENTREMIN, VNUMBIJ, TRIANGLE, E2E
#include "mkcell.h"
#include "spec.h"
#include "baseCells.h"
#include "vertex.h"
#include "algos.h"
#if defined(VNUMBIJ) || defined(E2E) || defined(TRIANGLE)
#include "up7model.h"
#endif
H3Index in_c; int in_d, in_v;
void harness(void) {
#if defined(CENTREMIN)
    // a centre child (last digit 0, res > 0) is smaller than each of its neighbours
    H3Index c = in_c = mkcell(RES, "in_c");
    int d = in_d = vp_int("in_d");
    __CPROVER_assume(d >= 1 && d <= 6 && H3_GET_INDEX_DIGIT(c, RES) == 0);
    VP_EXCLUDE();
    int rot = 0; H3Index n = 0;
    H3Error e = h3NeighborRotations(c, (Direction)d, &rot, &n);
    if (e == E_SUCCESS) { VP_WITNESS("centre"); __CPROVER_assert(n > c, "a centre child has the lowest index among its neighbours"); }
#elif defined(VNUMBIJ)
    // rotation bookkeeping is a bijection per cell
    H3Index c = in_c = mkcell(RES, "in_c");
    int v = in_v = vp_int("in_v"), d = in_d = vp_int("in_d");
    int pent = spec_is_pentagon(c), nv = pent ? 5 : 6;
    __CPROVER_assume(d >= 0 && d <= 7);   // values of the Direction enum (out-of-range enum values are not portable C)
    VP_EXCLUDE();
    Direction dd = directionForVertexNum(c, v);
    if (v < 0 || v >= nv) __CPROVER_assert(dd == INVALID_DIGIT, "vertex number out of range -> INVALID_DIGIT");
    else {
        VP_WITNESS("bij");
        __CPROVER_assert(dd >= 1 && dd <= 6 && !(pent && dd == 1), "direction of a vertex is a neighbour direction");
        __CPROVER_assert(vertexNumForDirection(c, dd) == v, "vertexNumForDirection(directionForVertexNum(v)) == v");
    }
    int vv = vertexNumForDirection(c, (Direction)d);
    if (d < 1 || d > 6 || (pent && d == 1)) __CPROVER_assert(vv == INVALID_VERTEX_NUM, "invalid direction -> INVALID_VERTEX_NUM");
    else {
        __CPROVER_assert(vv >= 0 && vv < nv, "vertex number in range");
        __CPROVER_assert(directionForVertexNum(c, vv) == (Direction)d, "directionForVertexNum(vertexNumForDirection(d)) == d");
    }
#elif defined(TRIANGLE)
    // the left and right neighbours at a corner are neighbours of each other
    H3Index c = in_c = mkcell(RES, "in_c");
    int v = in_v = vp_int("in_v");
    int pent = spec_is_pentagon(c), nv = pent ? 5 : 6;
    __CPROVER_assume(v >= 0 && v < nv);
    VP_EXCLUDE();
    Direction l = directionForVertexNum(c, v), r = directionForVertexNum(c, (v - 1 + nv) % nv);
    int r1 = 0, r2 = 0; H3Index L = 0, R = 0;
    H3Error e1 = h3NeighborRotations(c, l, &r1, &L), e2 = h3NeighborRotations(c, r, &r2, &R);
    __CPROVER_assert(e1 == E_SUCCESS && e2 == E_SUCCESS && L != R, "both corner neighbours exist and differ");
    VP_WITNESS("triangle");
    __CPROVER_assert(directionForNeighbor(L, R) != INVALID_DIGIT, "the two neighbours at a corner are adjacent: three cells meet at every corner");
#elif defined(E2E)
    H3Index c = in_c = mkcell(RES, "in_c");
    int v = in_v = vp_int("in_v");
    int nv = spec_is_pentagon(c) ? 5 : 6;
    VP_EXCLUDE();
    H3Index V = UINT64_C(0x5a5a5a5a5a5a5a5a);
    H3Error e = H3_EXPORT(cellToVertex)(c, v, &V);
    if (v < 0 || v >= nv) { __CPROVER_assert(e == E_DOMAIN, "vertex number out of range -> E_DOMAIN"); return; }
    __CPROVER_assert(e == E_SUCCESS, "cellToVertex succeeds");
    __CPROVER_assert(H3_GET_MODE(V) == H3_VERTEX_MODE, "mode 4");
    H3Index owner = V; H3_SET_MODE(owner, H3_CELL_MODE); H3_SET_RESERVED_BITS(owner, 0);
    __CPROVER_assert(spec_valid_cell(owner) && owner <= c, "owner is a valid cell not larger than the cell");
    __CPROVER_assert((int)H3_GET_RESERVED_BITS(V) < (spec_is_pentagon(owner) ? 5 : 6), "vertex number in the owner's range");
    VP_WITNESS("e2e");
    __CPROVER_assert(H3_EXPORT(isValidVertex)(V), "isValidVertex accepts what cellToVertex produces (canonical form is idempotent)");
#endif
}
