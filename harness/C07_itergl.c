// C07/C15 traversal glue: ONE step of the compact polygon iterator from an arbitrary mid-traversal state, with every
// geometric predicate replaced by an arbitrary-but-consistent answer per visited cell. The step must follow the
// hierarchical search: a coarse cell whose (children-covering) box misses the polygon box is skipped with its whole
// sub-tree; one whose box lies inside the polygon is emitted whole; otherwise the search descends to its first child;
// a target-resolution cell is emitted exactly when the containment mode's predicate holds; skipping goes to the next
// cell in pre-order that is not a descendant. Reference walk written independently of polyfill.c (own nextCell).
#include "mkcell.h"
#include "spec.h"
#include "h3api.h"
#include "polyfill.h"
#include "polygon.h"
#include "bbox.h"
#include <stdlib.h>
#define NV 4      /* visited-cell budget per step (stated bound) */
H3Index in_c; int in_mode, in_ans[NV * 8];
enum { A_CENTER, A_FIRSTV, A_BINSIDE, A_BCROSS, A_OVERLAP, A_PCONTAINS, A_BBINSIDE, A_CCONTAINS };
static H3Index xs[NV + 1]; static int nxs;
static GeoPolygon poly; static LatLng pv[3]; static BBox *pb;
static int idx_of(H3Index c) {
    for (int i = 0; i < NV; i++) if (i < nxs && xs[i] == c) return i;
    __CPROVER_assume(nxs < NV);            // budget: at most NV cells are examined in this step
    xs[nxs] = c; return nxs++;
}
static int ans(H3Index c, int kind) { return in_ans[idx_of(c) * 8 + kind]; }
// cell id is smuggled through the geometry objects: lat of the centre / north of the box / verts[0].lat of the boundary
static H3Index id_of(double d) { for (int i = 0; i < NV; i++) if (i < nxs && (double)(i + 1) == d) return xs[i]; return 0; }
H3Error H3_EXPORT(cellToLatLng)(H3Index c, LatLng *g) { g->lat = (double)(idx_of(c) + 1); g->lng = 0; return E_SUCCESS; }
H3Error H3_EXPORT(cellToBoundary)(H3Index c, CellBoundary *b) { b->numVerts = 6; b->verts[0].lat = (double)(idx_of(c) + 1); b->verts[0].lng = 1; return E_SUCCESS; }
H3Error cellToBBox(H3Index c, BBox *o, bool cover) { o->north = (double)(idx_of(c) + 1); o->south = cover ? 1 : 0; o->east = o->west = 2; return E_SUCCESS; }
H3Error H3_EXPORT(latLngToCell)(const LatLng *g, int res, H3Index *out) { __CPROVER_assert(g == &poly.geoloop.verts[0], "only the polygon's first vertex is indexed"); *out = UINT64_C(0x7777); return E_SUCCESS; }
static H3Index cur_for_firstv;
bool pointInsidePolygon(const GeoPolygon *p, const BBox *b, const LatLng *c) {
    __CPROVER_assert(p == &poly && b == pb, "polygon and its boxes handed on");
    if (c->lng == 0) return ans(id_of(c->lat), A_CENTER);       // a cell centre
    return ans(id_of(c->lat), A_BBINSIDE);                        // first corner of a cell's box (bboxToCellBoundary: lat = north)
}
bool cellBoundaryInsidePolygon(const GeoPolygon *p, const BBox *b, const CellBoundary *cb, const BBox *bb) {
    if (cb->numVerts == 4) return ans(id_of(bb->north), A_BBINSIDE);   // box-as-boundary of a coarse cell
    return ans(id_of(cb->verts[0].lat), A_BINSIDE);
}
bool cellBoundaryCrossesPolygon(const GeoPolygon *p, const BBox *b, const CellBoundary *cb, const BBox *bb) { return ans(id_of(bb->north), A_BCROSS); }
bool bboxOverlapsBBox(const BBox *a, const BBox *b) { __CPROVER_assert(a == pb, "polygon box against a cell box"); return ans(id_of(b->north), A_OVERLAP); }
bool bboxContainsBBox(const BBox *a, const BBox *b) { if (a == pb) return ans(id_of(b->north), A_PCONTAINS); return ans(id_of(a->north), A_CCONTAINS); }
bool bboxContains(const BBox *b, const LatLng *p) { return 1; }   // polygon vertex in the valid lat/lng range
// independent pre-order successor that skips the sub-tree
static H3Index ref_next(H3Index c) {
    int r = (int)((c >> 52) & 15);
    for (int k = 0; k < 16; k++) {
        if (r == 0) { int bc = (int)((c >> 45) & 127); return bc >= 121 ? 0 : ((UINT64_C(1) << 59) | ((uint64_t)(bc + 1) << 45) | ((UINT64_C(1) << 45) - 1)); }
        H3Index parent = (c & ~(UINT64_C(15) << 52)) | ((uint64_t)(r - 1) << 52) | (UINT64_C(7) << (3 * (15 - r)));
        int d = (int)((c >> (3 * (15 - r))) & 7);
        if (d < 6) { int nd = d + ((spec_is_pentagon(parent) && d == 0) ? 2 : 1); return (c & ~(UINT64_C(7) << (3 * (15 - r)))) | ((uint64_t)nd << (3 * (15 - r))); }
        c = parent; r--;
    }
    return 0;
}
static H3Index ref_child(H3Index c) { int r = (int)((c >> 52) & 15); return ((c & ~(UINT64_C(15) << 52)) | ((uint64_t)(r + 1) << 52)) & ~(UINT64_C(7) << (3 * (15 - (r + 1)))); }
void harness(void) {
    H3Index c0 = in_c = mkcell(CRES, "in_c");      // the cell emitted by the previous step (resolution CRES <= TRES)
    int mode = in_mode = vp_int("in_mode");
    __CPROVER_assume(mode >= 0 && mode <= 3);
    for (int i = 0; i < NV * 8; i++) in_ans[i] = vp_int_i("in_ans", i) & 1;
    VP_EXCLUDE();
    poly.geoloop.numVerts = 3; poly.geoloop.verts = pv; poly.numHoles = 0;
    pb = malloc(sizeof(BBox)); __CPROVER_assume(pb != 0);    // released by the iterator when the search is exhausted
    IterCellsPolygonCompact it = {.cell = c0, .error = E_SUCCESS, ._res = TRES, ._flags = (uint32_t)mode, ._polygon = &poly, ._bboxes = pb, ._started = true};
    // reference walk
    H3Index x = ref_next(c0), want = 0; int steps = 0, within = 1;
    H3Index seq[NV]; int nseq = 0;
    for (int i = 0; i < NV + 1; i++) {
        if (x == 0) break;
        if (nseq == NV) { within = 0; break; }
        seq[nseq] = x; int k = nseq++;
        int r = (int)((x >> 52) & 15);
        const int *a = &in_ans[k * 8];
        if (r == TRES) {
            int emit = 0;
            if (mode == 0) emit = a[A_CENTER];
            else if (mode == 1) emit = a[A_BINSIDE];
            else if (mode == 2) emit = a[A_CENTER] || 0 /* first polygon vertex maps to cell 0x7777, never a real cell */ || a[A_BCROSS];
            else emit = a[A_CENTER] || a[A_BINSIDE] || a[A_BCROSS] || (a[A_OVERLAP] && (a[A_CCONTAINS] || a[A_BBINSIDE] || a[A_BCROSS]));
            if (emit) { want = x; break; }
            x = ref_next(x);
        } else {
            if (!a[A_OVERLAP]) x = ref_next(x);
            else if (a[A_PCONTAINS] && a[A_BBINSIDE]) { want = x; break; }
            else x = ref_child(x);
        }
    }
    __CPROVER_assume(within);
    iterStepPolygonCompact(&it);
    if (want) VP_WITNESS("emits"); else VP_WITNESS("exhausted");
    __CPROVER_assert(it.cell == want, "the step emits the next cell selected by the hierarchical search (or ends)");
    __CPROVER_assert(it.error == E_SUCCESS, "no error");
    for (int i = 0; i < NV; i++) if (i < nseq) __CPROVER_assert(i < nxs && xs[i] == seq[i], "cells are examined in search order: skip sub-tree / descend to the first child / next sibling");
}
