// C15.H3: polygonToCellsExperimental never writes beyond the capacity it is given.
// The polygon iterator is replaced by an arbitrary sequence of NSEQ cells followed by exhaustion with an arbitrary error.
#include "vp.h"
#include "h3api.h"
#include "polyfill.h"
#ifndef NSEQ
#define NSEQ 4
#endif
uint64_t in_seq[NSEQ]; int in_len, in_err; int64_t in_size;
static int pos, destroyed;
static const GeoPolygon *the_poly;
static void load(IterCellsPolygon *it) {
    if (pos < in_len) { it->cell = in_seq[pos]; it->error = E_SUCCESS; }
    else { it->cell = 0; it->error = (H3Error)in_err; }
}
IterCellsPolygon iterInitPolygon(const GeoPolygon *polygon, int res, uint32_t flags) {
    IterCellsPolygon it = {0};
    __CPROVER_assert(polygon == the_poly && res == 7 && flags == 2, "arguments are handed to the iterator unchanged");
    pos = 0; load(&it); return it;
}
void iterStepPolygon(IterCellsPolygon *it) { __CPROVER_assert(!destroyed, "no step after destroy"); if (it->cell == 0) return; pos++; load(it); }
void iterDestroyPolygon(IterCellsPolygon *it) { destroyed++; it->cell = 0; it->error = E_SUCCESS; }
void harness(void) {
    for (int i = 0; i < NSEQ; i++) { in_seq[i] = vp_u64_i("in_seq", i); __CPROVER_assume(in_seq[i] != 0); }
    in_len = vp_int("in_len"); in_err = vp_int("in_err"); in_size = vp_i64("in_size");
    __CPROVER_assume(in_len >= 0 && in_len <= NSEQ && in_err >= 0 && in_err <= 15 && in_size >= 0 && in_size <= NSEQ);
    VP_EXCLUDE();
    GeoPolygon poly; the_poly = &poly;
    H3Index out[NSEQ + 2];
    for (int i = 0; i < NSEQ + 2; i++) out[i] = UINT64_C(0x5a5a5a5a5a5a5a5a);
    H3Error e = H3_EXPORT(polygonToCellsExperimental)(&poly, 7, 2, in_size, out + 1);
    __CPROVER_assert(out[0] == UINT64_C(0x5a5a5a5a5a5a5a5a), "no write before the buffer");
    for (int i = 0; i < NSEQ + 1; i++)
        if (i >= in_size) __CPROVER_assert(out[1 + i] == UINT64_C(0x5a5a5a5a5a5a5a5a), "no write at or beyond the given capacity");
    if (in_len > in_size) {
        VP_WITNESS("overflow");
        __CPROVER_assert(e == E_MEMORY_BOUNDS, "more cells than capacity -> E_MEMORY_BOUNDS");
        __CPROVER_assert(destroyed == 1, "iterator released on the overflow path");
    } else {
        VP_WITNESS("fits");
        __CPROVER_assert(e == (H3Error)in_err, "otherwise the iterator's final status is returned");
        for (int i = 0; i < NSEQ; i++) if (i < in_len) __CPROVER_assert(out[1 + i] == in_seq[i], "cells are written in iteration order");
    }
}
