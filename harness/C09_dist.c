// C09: gridDistance / local IJ. Modes BASIC, NBR, SYM, LIP, DESC, IJRT, IJOVF
#include "mkcell.h"
#include "spec.h"
#include "baseCells.h"
#include "algos.h"
#include "localij.h"
#include "coordijk.h"
#if defined(IJRT)
#define UP7_CHECKED
#include "up7model.h"
#endif
#ifndef RES
#define RES 0
#endif
H3Index in_a, in_b, in_w; int in_d, in_i, in_j; uint32_t in_mode;
void harness(void) {
#if defined(BASIC)
    H3Index a = in_a = mkcell(RES, "in_a");
    H3Index w = in_w = vp_u64("in_w");
    uint32_t mode = in_mode = (uint32_t)vp_u64("in_mode");
    VP_EXCLUDE();
    int64_t d = -7;
    H3Error e = H3_EXPORT(gridDistance)(a, a, &d);
    __CPROVER_assert(e == E_SUCCESS && d == 0, "gridDistance(a,a) == 0");
    int64_t sz = -7;
    __CPROVER_assert(H3_EXPORT(gridPathCellsSize)(a, a, &sz) == E_SUCCESS && sz == 1, "gridPathCellsSize(a,a) == 1");
    // any valid cell of another resolution
    if (spec_valid_cell(w) && (int)((w >> 52) & 15) != RES) {
        int64_t d2 = -7;
        VP_WITNESS("res mismatch");
        __CPROVER_assert(H3_EXPORT(gridDistance)(a, w, &d2) == E_RES_MISMATCH && d2 == -7, "differing resolutions -> E_RES_MISMATCH, no result");
    }
    if (mode != 0) {
        CoordIJ ij = {7, 7}; H3Index o = UINT64_C(0x5a5a5a5a5a5a5a5a);
        __CPROVER_assert(H3_EXPORT(cellToLocalIj)(a, a, mode, &ij) == E_OPTION_INVALID && ij.i == 7 && ij.j == 7, "cellToLocalIj: mode != 0 -> E_OPTION_INVALID");
        __CPROVER_assert(H3_EXPORT(localIjToCell)(a, &ij, mode, &o) == E_OPTION_INVALID && o == UINT64_C(0x5a5a5a5a5a5a5a5a), "localIjToCell: mode != 0 -> E_OPTION_INVALID");
    }
#elif defined(NBR)
    H3Index a = in_a = mkcell(RES, "in_a");
    int dir = in_d = vp_int("in_d");
    __CPROVER_assume(dir >= 1 && dir <= 6);
    VP_EXCLUDE();
    int rot = 0; H3Index b = 0;
    H3Error e = h3NeighborRotations(a, (Direction)dir, &rot, &b);
    __CPROVER_assume(e == E_SUCCESS);
    in_b = b;
    int64_t d = -1;
    H3Error e2 = H3_EXPORT(gridDistance)(a, b, &d);
    VP_WITNESS("neighbour");
    __CPROVER_assert(e2 == E_SUCCESS, "gridDistance succeeds for neighbouring cells");
    __CPROVER_assert(e2 != E_SUCCESS || d == 1, "gridDistance of neighbouring cells is 1");
#elif defined(SYM)
    H3Index a = in_a = mkcell(RES, "in_a"), b = in_b = mkcell(RES, "in_b");
    VP_EXCLUDE();
    int64_t d1 = -1, d2 = -1;
    H3Error e1 = H3_EXPORT(gridDistance)(a, b, &d1);
    H3Error e2 = H3_EXPORT(gridDistance)(b, a, &d2);
    if (e1 == E_SUCCESS && e2 == E_SUCCESS) { VP_WITNESS("both succeed"); __CPROVER_assert(d1 == d2, "gridDistance is symmetric when both directions succeed"); }
    if (e1 == E_SUCCESS) __CPROVER_assert(d1 >= 0 && (d1 == 0) == (a == b), "distance is non-negative and 0 only for the cell itself");
#elif defined(LIP)
    // local characterisation of graph distance, Lipschitz half: neighbouring cells differ by at most one in distance
    H3Index a = in_a = mkcell(RES, "in_a"), b = in_b = mkcell(RES, "in_b");
    int dir = in_d = vp_int("in_d");
    __CPROVER_assume(dir >= 1 && dir <= 6);
#ifdef PENTBC
    // restriction for the finer resolutions: origin on a pentagon base cell, target on another base cell (where the
    // unfolding across base cells has its special cases)
    __CPROVER_assume(spec_is_pent_bc((int)((a >> 45) & 127)) && ((a >> 45) & 127) != ((b >> 45) & 127));
#endif
    VP_EXCLUDE();
    int rot = 0; H3Index n = 0;
    H3Error e = h3NeighborRotations(b, (Direction)dir, &rot, &n);
    __CPROVER_assume(e == E_SUCCESS);
    int64_t d1 = -1, d2 = -1;
    H3Error e1 = H3_EXPORT(gridDistance)(a, b, &d1), e2 = H3_EXPORT(gridDistance)(a, n, &d2);
    if (e1 == E_SUCCESS && e2 == E_SUCCESS) { VP_WITNESS("lipschitz"); __CPROVER_assert(d1 - d2 <= 1 && d2 - d1 <= 1, "distances to neighbouring cells differ by at most one (no path is shorter than the distance)"); }
#elif defined(IJRT)
    // cellToLocalIj / localIjToCell mutually inverse where both succeed; outputs valid, of the origin's resolution
    H3Index o = in_a = mkcell(RES, "in_a");
    CoordIJ ij; ij.i = in_i = vp_int("in_i"); ij.j = in_j = vp_int("in_j");
    __CPROVER_assume(ij.i >= -IJB && ij.i <= IJB && ij.j >= -IJB && ij.j <= IJB);
    VP_EXCLUDE();
    H3Index h = 0;
    H3Error e = H3_EXPORT(localIjToCell)(o, &ij, 0, &h);
    if (e == E_SUCCESS) {
        VP_WITNESS("ij to cell");
        __CPROVER_assert(spec_valid_cell(h) && (int)((h >> 52) & 15) == RES, "localIjToCell returns a valid cell of the origin's resolution");
        CoordIJ back = {0, 0};
        H3Error e2 = H3_EXPORT(cellToLocalIj)(o, h, 0, &back);
        if (e2 == E_SUCCESS) __CPROVER_assert(back.i == ij.i && back.j == ij.j, "cellToLocalIj(localIjToCell(ij)) == ij where both succeed");
    }
#endif
}
