// C06 compactCells / uncompactCells. Modes SMALL (N symbolic cells, no compaction possible), FAMILY (complete child
// family of a symbolic parent, rotated order, optional extra cell), CAP (uncompactCells capacity and resolution checks)
#include "mkcell.h"
#include "spec.h"
#include "baseCells.h"
#include "memmodel.h"
#ifdef VP_FIXED_ALLOC
#include "allocshim.h"
#endif
H3Index in_c[8]; H3Index in_p, in_x; int in_off, in_r; int64_t in_cap;
static H3Index spec_parent(H3Index h, int pr) {
    uint64_t x = h & ~(UINT64_C(15) << 52);
    x |= (uint64_t)pr << 52;
    for (int r = 1; r <= 15; r++)
        if (r > pr) x |= UINT64_C(7) << (3 * (15 - r));
    return x;
}
void harness(void) {
#if defined(SMALL)
    H3Index in[N], out[N + 2];
    for (int i = 0; i < N; i++) { uint64_t x = vp_u64_i("in_c", i); in[i] = in_c[i] = mkcell_from(RES, x); }
    for (int i = 0; i < N; i++) for (int j = i + 1; j < N; j++) __CPROVER_assume(in[i] != in[j]);
    for (int i = 0; i < N + 2; i++) out[i] = UINT64_C(0x5a5a5a5a5a5a5a5a);
    for (int i = 0; i < N; i++) out[1 + i] = 0;
    VP_EXCLUDE();
    H3Error e = H3_EXPORT(compactCells)(in, out + 1, N);
    __CPROVER_assert(e == E_SUCCESS, "compactCells succeeds on distinct valid cells of one resolution");
    __CPROVER_assert(out[0] == UINT64_C(0x5a5a5a5a5a5a5a5a) && out[N + 1] == UINT64_C(0x5a5a5a5a5a5a5a5a), "no write outside the output array");
    // fewer than 6 cells contain no complete sibling set: the result is the same set
    for (int i = 0; i < N; i++) { int c = 0; for (int j = 0; j < N; j++) if (out[1 + j] == in[i]) c++; __CPROVER_assert(c == 1, "every input cell appears exactly once in the output"); }
    int64_t sz = -1;
    __CPROVER_assert(H3_EXPORT(uncompactCellsSize)(out + 1, N, RES, &sz) == E_SUCCESS && sz == N, "uncompactCellsSize == |S|");
    H3Index back[N + 1]; back[N] = UINT64_C(0x5a5a5a5a5a5a5a5a);
    __CPROVER_assert(H3_EXPORT(uncompactCells)(out + 1, N, back, N, RES) == E_SUCCESS, "uncompactCells succeeds with the exact capacity");
    for (int i = 0; i < N; i++) { int c = 0; for (int j = 0; j < N; j++) if (back[j] == in[i]) c++; __CPROVER_assert(c == 1, "uncompact(compact(S)) == S"); }
    VP_WITNESS("small");
    __CPROVER_assert(back[N] == UINT64_C(0x5a5a5a5a5a5a5a5a), "uncompactCells stays within its capacity");
#elif defined(FAMILY)
#ifdef VP_FIXED_ALLOC
    vp_alloc_init();
    for (int i = 0; i < VP_MAXALLOC; i++) __CPROVER_assume(!in_fail[i]);
#endif
    // RES >= 1: the children of a symbolic parent of resolution RES-1, presented rotated by a symbolic offset
    H3Index P = in_p = mkcell(RES - 1, "in_p");
    int off = in_off = vp_int("in_off");
    H3Index ch[7] = {0, 0, 0, 0, 0, 0, 0};
    H3_EXPORT(cellToChildren)(P, RES, ch);
    // the set size is a job parameter (PENT): a symbolic allocation size forces CBMC into its unbounded-array encoding
    enum { n = PENT ? 6 : 7 };
    __CPROVER_assume((spec_is_pentagon(P) != 0) == (PENT != 0));
    __CPROVER_assume(off >= 0 && off < n);
#ifdef EXTRA
    H3Index x = in_x = mkcell(RES, "in_x");
    __CPROVER_assume(spec_parent(x, RES - 1) != P);
#endif
    VP_EXCLUDE();
    H3Index in[8] = {0}, out[8] = {0};
    for (int i = 0; i < 7; i++) if (i < n) in[i] = ch[(i + off) % n];
#ifdef EXTRA
    in[n] = x;
    H3Error e = H3_EXPORT(compactCells)(in, out, n + 1);
#else
    H3Error e = H3_EXPORT(compactCells)(in, out, n);
#endif
    __CPROVER_assert(e == E_SUCCESS, "compactCells succeeds");
    int cnt = 0, hasP = 0, hasX = 0;
    for (int i = 0; i < 8; i++) if (out[i]) { cnt++; if (out[i] == P) hasP = 1;
#ifdef EXTRA
        if (out[i] == x) hasX = 1;
#endif
    }
    VP_WITNESS("family");
#ifdef EXTRA
    __CPROVER_assert(cnt == 2 && hasP && hasX, "a complete family plus one foreign cell compacts to the parent and that cell");
#else
    __CPROVER_assert(cnt == 1 && hasP, "a complete family compacts to exactly its parent");
#endif
#elif defined(FAMILYC)
    // the complete child family of the CONCRETE parent PCONST (job parameter) in the order rotated by the concrete OFF,
    // plus NX arbitrary (symbolic) foreign cells of the same resolution that are no children of PCONST and distinct:
    // the symbolic part is where the foreign cells (and their parents) hash to, i.e. the collision chains they form
    // with the family's parent slot, and whether they are pentagon children / on pentagon base cells
    const H3Index P = in_p = ((uint64_t)PCONST);
    enum { PR = (int)((((uint64_t)PCONST) >> 52) & 15), CR = PR + 1, n = PENT ? 6 : 7, T = n + NX };
    __CPROVER_assert(spec_valid_cell(P) && (spec_is_pentagon(P) != 0) == (PENT != 0), "job parameter: PCONST is a valid cell of the announced kind");
    H3Index ch[7] = {0, 0, 0, 0, 0, 0, 0};
    H3_EXPORT(cellToChildren)(P, CR, ch);
#ifdef SYMOFF
    int OFF = in_off = vp_int("in_off");
    __CPROVER_assume(OFF >= 0 && OFF < n);
#endif
    H3Index in[T], out[T + 2], xs[NX + 1];
    for (int i = 0; i < n; i++) in[i] = ch[(i + OFF) % n];
    for (int i = 0; i < NX; i++) {
        uint64_t w = vp_u64_i("in_c", i);
        xs[i] = in_c[i] = mkcell_from(CR, w);
        __CPROVER_assume(spec_parent(xs[i], PR) != P);
        for (int j = 0; j < i; j++) __CPROVER_assume(xs[j] != xs[i]);
        in[XPOS == 0 ? n + i : i] = xs[i];
    }
#if XPOS != 0
    // foreign cells first, family afterwards
    for (int i = 0; i < n; i++) in[NX + i] = ch[(i + OFF) % n];
#endif
    for (int i = 0; i < T + 2; i++) out[i] = 0;
    out[0] = out[T + 1] = UINT64_C(0x5a5a5a5a5a5a5a5a);
    VP_EXCLUDE();
    H3Error e = H3_EXPORT(compactCells)(in, out + 1, T);
    __CPROVER_assert(e == E_SUCCESS, "compactCells succeeds on a complete family plus distinct foreign cells");
    __CPROVER_assert(out[0] == UINT64_C(0x5a5a5a5a5a5a5a5a) && out[T + 1] == UINT64_C(0x5a5a5a5a5a5a5a5a), "no write outside the output array");
    int cnt = 0, hasP = 0;
    for (int i = 0; i < T; i++) if (out[1 + i]) { cnt++; if (out[1 + i] == P) hasP++; }
    VP_WITNESS("familyc");
    __CPROVER_assert(hasP == 1, "the complete family is replaced by its parent (exactly once)");
    __CPROVER_assert(cnt == 1 + NX, "output = parent + the foreign cells, nothing else");
    for (int i = 0; i < NX; i++) { int c = 0; for (int j = 0; j < T; j++) if (out[1 + j] == xs[i]) c++; __CPROVER_assert(c == 1, "every foreign cell is kept exactly once, uncompacted"); }
    int64_t sz = -1;
    __CPROVER_assert(H3_EXPORT(uncompactCellsSize)(out + 1, T, CR, &sz) == E_SUCCESS && sz == T, "uncompactCellsSize(compact(S)) == |S|");
    H3Index back[T + 1]; back[T] = UINT64_C(0x5a5a5a5a5a5a5a5a);
    __CPROVER_assert(H3_EXPORT(uncompactCells)(out + 1, T, back, T, CR) == E_SUCCESS, "uncompactCells succeeds with the exact capacity");
    for (int i = 0; i < T; i++) { int c = 0; for (int j = 0; j < T; j++) if (back[j] == in[i]) c++; __CPROVER_assert(c == 1, "uncompact(compact(S)) == S"); }
    __CPROVER_assert(back[T] == UINT64_C(0x5a5a5a5a5a5a5a5a), "uncompactCells stays within its capacity");
#elif defined(CAP)
    // two valid cells of RES, target resolution r, capacity cap (symbolic); buffer of exactly cap slots + canary
    H3Index c[2]; c[0] = in_c[0] = mkcell(RES, "in_c"); c[1] = in_c[1] = mkcell(RES, "in_c1");
    int r = in_r = vp_int("in_r"); int64_t cap = in_cap = vp_i64("in_cap");
    __CPROVER_assume(cap >= 0 && cap <= 14 && r <= RES + 1);
    VP_EXCLUDE();
    H3Index buf[15];
    for (int i = 0; i < 15; i++) buf[i] = UINT64_C(0x5a5a5a5a5a5a5a5a);
    H3Error e = H3_EXPORT(uncompactCells)(c, 2, buf, cap, r);
    for (int i = 0; i < 15; i++) if (i >= cap) __CPROVER_assert(buf[i] == UINT64_C(0x5a5a5a5a5a5a5a5a), "uncompactCells never writes beyond the capacity it is given");
    int64_t need = -1;
    H3Error es = H3_EXPORT(uncompactCellsSize)(c, 2, r, &need);
    if (r < RES || r > 15) { VP_WITNESS("mismatch"); __CPROVER_assert(e == E_RES_MISMATCH && es == E_RES_MISMATCH, "target resolution coarser than an input cell (or out of range) -> E_RES_MISMATCH"); }
    else {
        __CPROVER_assert(es == E_SUCCESS && need == ((r == RES) ? 2 : (spec_is_pentagon(c[0]) ? 6 : 7) + (spec_is_pentagon(c[1]) ? 6 : 7)), "uncompactCellsSize = sum of the children counts");
        if (cap < need) { VP_WITNESS("too small"); __CPROVER_assert(e == E_MEMORY_BOUNDS, "capacity below the needed size -> E_MEMORY_BOUNDS"); }
        else __CPROVER_assert(e == E_SUCCESS, "sufficient capacity succeeds");
    }
#endif
}
