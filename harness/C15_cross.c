// C15 (OVERLAPPING / FULL rely on it): the quick rejects inside cellBoundaryCrossesGeoLoop - box-against-box first, then
// each polygon segment against the cell's box, with longitudes normalised across the antimeridian - never hide a
// crossing. The exact segment test (lineCrossesLine: symbolic FP multiplication/division, not decidable here) is
// replaced by the weakest predicate consistent with it, "the two segments' own bounding boxes overlap"; with that
// predicate the function must answer exactly like an independent all-pairs evaluation in a common longitude frame.
// Comparisons and +-2*pi only. Loop and cell boundary: 3 vertices each, boxes narrower than 180 degrees.
#include "vp.h"
#include "h3api.h"
#include "polygon.h"
#include "bbox.h"
#include "constants.h"
#include <math.h>
int in_k[12];
#define EPS 1e-9
#ifndef GRID
#define GRID 5
#endif
#define LNGMAX ((int)(3.14159 * (1 << GRID)))
static double mn(double a, double b) { return a < b ? a : b; }
static double mx(double a, double b) { return a > b ? a : b; }
bool lineCrossesLine(const LatLng *a1, const LatLng *a2, const LatLng *b1, const LatLng *b2) {
    // weakest consistent predicate: closed bounding boxes of the two segments intersect (in the frame the caller built)
    return mn(a1->lat, a2->lat) <= mx(b1->lat, b2->lat) && mn(b1->lat, b2->lat) <= mx(a1->lat, a2->lat) &&
           mn(a1->lng, a2->lng) <= mx(b1->lng, b2->lng) && mn(b1->lng, b2->lng) <= mx(a1->lng, a2->lng);
}
static int ovl(LatLng a1, LatLng a2, LatLng b1, LatLng b2, double m) {   // overlap with margin m (m > 0: clear, m < 0: possible)
    return mn(a1.lat, a2.lat) + m <= mx(b1.lat, b2.lat) && mn(b1.lat, b2.lat) + m <= mx(a1.lat, a2.lat) &&
           mn(a1.lng, a2.lng) + m <= mx(b1.lng, b2.lng) && mn(b1.lng, b2.lng) + m <= mx(a1.lng, a2.lng);
}
void harness(void) {
    LatLng lv[3], bv[3];
#ifndef NVX
#define NVX 3
#endif
#ifndef NVL
#define NVL NVX
#endif
#ifndef NVB
#define NVB NVX
#endif
    for (int i = 0; i < 3; i++) {
        // stated bound: coordinates on a grid of step 2^-GRID rad (exact in double); the antimeridian is approached to within one step
        for (int q = 0; q < 4; q++) in_k[4 * i + q] = vp_int_i("in_k", 4 * i + q);
        __CPROVER_assume(in_k[4 * i] >= -(3 << (GRID - 1)) && in_k[4 * i] <= (3 << (GRID - 1)) && in_k[4 * i + 2] >= -(3 << (GRID - 1)) && in_k[4 * i + 2] <= (3 << (GRID - 1)));
        __CPROVER_assume(in_k[4 * i + 1] >= -LNGMAX && in_k[4 * i + 1] <= LNGMAX && in_k[4 * i + 1] != 0 && in_k[4 * i + 3] >= -LNGMAX && in_k[4 * i + 3] <= LNGMAX && in_k[4 * i + 3] != 0);
        lv[i].lat = in_k[4 * i] * (1.0 / (1 << GRID)); lv[i].lng = in_k[4 * i + 1] * (1.0 / (1 << GRID));
        bv[i].lat = in_k[4 * i + 2] * (1.0 / (1 << GRID)); bv[i].lng = in_k[4 * i + 3] * (1.0 / (1 << GRID));
    }
    VP_EXCLUDE();
    GeoLoop loop = {.numVerts = NVL, .verts = lv};
    GeoLoop bloop = {.numVerts = NVB, .verts = bv};
    CellBoundary cb; cb.numVerts = NVB; for (int i = 0; i < NVB; i++) cb.verts[i] = bv[i];
    BBox lb, bb;
    bboxFromGeoLoop(&loop, &lb);
    bboxFromGeoLoop(&bloop, &bb);
    // documented input domain: both shapes narrower than 180 degrees of longitude, a little away from degenerate widths
    double wl = bboxIsTransmeridian(&lb) ? lb.east - lb.west + M_2PI : lb.east - lb.west;
    double wb = bboxIsTransmeridian(&bb) ? bb.east - bb.west + M_2PI : bb.east - bb.west;
    __CPROVER_assume(wl >= 0 && wl <= 3.0 && wb >= 0 && wb <= 3.0);
    // independent evaluation on the circle: each shape is unwrapped on its own (a shape that crosses the antimeridian has its
    // negative longitudes moved east by 2*pi), then the two are compared modulo 2*pi (shift k in {-1,0,1}; the widths add up
    // to less than 2*pi, so at most one shift can make them meet)
    LatLng L[3], B[3];
    int lt = bboxIsTransmeridian(&lb), bt = bboxIsTransmeridian(&bb);
    for (int i = 0; i < 3; i++) { L[i] = lv[i]; B[i] = bv[i]; if (lt && L[i].lng < 0) L[i].lng += M_2PI; if (bt && B[i].lng < 0) B[i].lng += M_2PI; }
    int clear = 0, possible = 0;
    for (int k = -1; k <= 1; k++) {
        LatLng S[3];
        for (int i = 0; i < 3; i++) { S[i] = B[i]; S[i].lng += k * M_2PI; }
        for (int i = 0; i < NVL; i++) for (int j = 0; j < NVB; j++) {
            if (ovl(L[i], L[(i + 1) % NVL], S[j], S[(j + 1) % NVB], EPS)) clear = 1;
            if (ovl(L[i], L[(i + 1) % NVL], S[j], S[(j + 1) % NVB], -EPS)) possible = 1;
        }
    }
    // when neither shape is transmeridian but they sit on opposite sides of the antimeridian nothing is shifted: same frame as the library
    bool got = cellBoundaryCrossesGeoLoop(&loop, &lb, &cb, &bb);
    if (clear) { VP_WITNESS("clear overlap"); __CPROVER_assert(got, "a pair of segments whose boxes clearly overlap is never hidden by the quick rejects (also across the antimeridian)"); }
    if (got) __CPROVER_assert(possible, "a reported crossing comes from a pair of segments whose boxes (nearly) overlap");
}
