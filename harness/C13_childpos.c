// C13: cellToChildPos / childPosToCell. Modes FWD, BWD (concrete PRES<=CRES), ORDER (CRES, symbolic parent res), ERR
#include "mkcell.h"
#include "spec.h"
#include "baseCells.h"
#include "iterators.h"
H3Index in_p, in_c; int64_t in_pos; int in_pr, in_cr;
static H3Index spec_parent(H3Index h, int pr) {
    uint64_t x = h & ~(UINT64_C(15) << 52);
    x |= (uint64_t)pr << 52;
    for (int r = 1; r <= 15; r++)
        if (r > pr) x |= UINT64_C(7) << (3 * (15 - r));
    return x;
}
static int64_t spec_size(H3Index p, int pres, int cres) {
    int64_t p7 = 1;
    for (int i = 0; i < 15; i++) if (i < cres - pres) p7 *= 7;
    return spec_is_pentagon(p) ? 1 + 5 * (p7 - 1) / 6 : p7;
}
static int firstNZpos(H3Index x, int p, int c) {
    for (int r = p + 1; r <= c; r++)
        if (H3_GET_INDEX_DIGIT(x, r)) return r;
    return 0;
}
void harness(void) {
#if defined(FWD)
    H3Index p = in_p = mkcell(PRES, "in_p");
    int64_t pos = in_pos = vp_i64("in_pos");
#ifdef PENTONLY
    __CPROVER_assume(spec_is_pentagon(p));   // deep pairs: the pentagon parents (12 per resolution) carry the special-case arithmetic
#endif
    VP_EXCLUDE();
    H3Index c = UINT64_C(0x5a5a5a5a5a5a5a5a);
    H3Error e = H3_EXPORT(childPosToCell)(pos, p, CRES, &c);
    int64_t sz = spec_size(p, PRES, CRES);
    if (pos < 0 || pos >= sz) {
        VP_WITNESS("out of range");
        __CPROVER_assert(e == E_DOMAIN, "position outside [0,size) -> E_DOMAIN");
        __CPROVER_assert(c == UINT64_C(0x5a5a5a5a5a5a5a5a), "no result on error");
    } else {
        VP_WITNESS("in range");
        __CPROVER_assert(e == E_SUCCESS, "position in range succeeds");
        __CPROVER_assert(spec_valid_cell(c), "child is a valid cell");
        __CPROVER_assert(H3_GET_RESOLUTION(c) == CRES && spec_parent(c, PRES) == p, "child lies under the parent at the child resolution");
        int64_t back = -1;
        H3Error e2 = H3_EXPORT(cellToChildPos)(c, PRES, &back);
        __CPROVER_assert(e2 == E_SUCCESS && back == pos, "cellToChildPos(childPosToCell(pos)) == pos");
    }
#elif defined(BWD)
    H3Index c = in_c = mkcell(CRES, "in_c");
#ifdef PENTONLY
    __CPROVER_assume(spec_is_pentagon(spec_parent(c, PRES)));
#endif
    VP_EXCLUDE();
    int64_t pos = -1;
    H3Error e = H3_EXPORT(cellToChildPos)(c, PRES, &pos);
    __CPROVER_assert(e == E_SUCCESS, "every valid child has a position");
    H3Index p = spec_parent(c, PRES);
    __CPROVER_assert(pos >= 0 && pos < spec_size(p, PRES, CRES), "position lies in [0, cellToChildrenSize)");
    H3Index c2 = 0;
    H3Error e2 = H3_EXPORT(childPosToCell)(pos, p, CRES, &c2);
    VP_WITNESS("bwd");
    __CPROVER_assert(e2 == E_SUCCESS && c2 == c, "childPosToCell(cellToChildPos(c)) == c");
#elif defined(ORDER)
    // position i is the i-th element of cellToChildren: centre child -> 0 and the iterator successor -> +1
    H3Index x = in_c = mkcell(CRES, "in_c");
    VP_EXCLUDE();
    H3Index P = spec_parent(x, PRES);
    IterCellsChildren it;
    it.h = x; it._parentRes = PRES;
    int f = firstNZpos(x, PRES, CRES);
    it._skipDigit = spec_is_pentagon(P) ? (f ? f - 1 : CRES) : -1;   // Inv (proved inductive in C04)
    iterStepChild(&it);
    int64_t a = -1, b = -1;
    H3Error ea = H3_EXPORT(cellToChildPos)(x, PRES, &a);
    __CPROVER_assert(ea == E_SUCCESS, "position exists");
    if (f == 0) __CPROVER_assert(a == 0, "centre child has position 0");
    if (it.h != 0) {
        H3Error eb = H3_EXPORT(cellToChildPos)(it.h, PRES, &b);
        VP_WITNESS("order");
        __CPROVER_assert(eb == E_SUCCESS && b == a + 1, "the next child in cellToChildren order has the next position");
    } else {
        __CPROVER_assert(a == spec_size(P, PRES, CRES) - 1, "the last child has position size-1");
    }
#elif defined(ERR)
    H3Index p = in_p = mkcell(PRES, "in_p");
    int cr = in_cr = vp_int("in_cr");
    int pr = in_pr = vp_int("in_pr");
    int64_t pos = in_pos = vp_i64("in_pos");
    VP_EXCLUDE();
    H3Index c = 0;
    H3Error e = H3_EXPORT(childPosToCell)(pos, p, cr, &c);
    if (cr < 0 || cr > 15) __CPROVER_assert(e == E_RES_DOMAIN, "childPosToCell: resolution outside 0-15 -> E_RES_DOMAIN");
    else if (cr < PRES) { VP_WITNESS("mismatch"); __CPROVER_assert(e == E_RES_MISMATCH, "childPosToCell: child resolution coarser than the parent -> E_RES_MISMATCH"); }
    int64_t out = -1;
    H3Error e2 = H3_EXPORT(cellToChildPos)(p, pr, &out);
    if (pr < 0 || pr > 15) __CPROVER_assert(e2 == E_RES_DOMAIN, "cellToChildPos: resolution outside 0-15 -> E_RES_DOMAIN");
    else if (pr > PRES) __CPROVER_assert(e2 == E_RES_MISMATCH, "cellToChildPos: parent resolution finer than the cell -> E_RES_MISMATCH");
    else if (pr == PRES) __CPROVER_assert(e2 == E_SUCCESS && out == 0, "a cell is child 0 of itself");
#endif
}
