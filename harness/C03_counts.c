// C03: counts and enumerations (COUNTS, PENTS, RES0) and the FaceIJK round trip (FIJK, res 0-3, L-UP7 model)
#include "mkcell.h"
#include "spec.h"
#include "baseCells.h"
#include "faceijk.h"
#ifdef FIJK
#include "up7model.h"
#endif
H3Index in_h; int in_r, in_i, in_j;
#ifndef RES
#define RES 0
#endif
void harness(void) {
#if defined(COUNTS)
    int r = in_r = vp_int("in_r");
    VP_EXCLUDE();
    int64_t n = -7;
    H3Error e = H3_EXPORT(getNumCells)(r, &n);
    __CPROVER_assert(H3_EXPORT(res0CellCount)() == 122 && H3_EXPORT(pentagonCount)() == 12, "res0CellCount == 122, pentagonCount == 12");
    if (r < 0 || r > 15) {
        __CPROVER_assert(e == E_RES_DOMAIN && n == -7, "getNumCells: resolution outside 0-15 -> E_RES_DOMAIN, no result");
    } else {
        int64_t p7 = 1;
        for (int i = 0; i < 15; i++) if (i < r) p7 *= 7;
        VP_WITNESS("counts");
        __CPROVER_assert(e == E_SUCCESS && n == 2 + 120 * p7, "getNumCells == 2 + 120*7^r");
        // link to the per-base-cell bijection of C13: sum of cellToChildrenSize over the 122 base cells
        int64_t sum = 0;
        for (int bc = 0; bc < 122; bc++) {
            H3Index b = (UINT64_C(1) << 59) | ((uint64_t)bc << 45) | ((UINT64_C(1) << 45) - 1);
            int64_t s = 0;
            H3Error e2 = H3_EXPORT(cellToChildrenSize)(b, r, &s);
            __CPROVER_assert(e2 == E_SUCCESS, "children size of a base cell");
            sum += s;
        }
        __CPROVER_assert(sum == n, "sum over base cells of cellToChildrenSize == getNumCells");
    }
#elif defined(PENTS)
    H3Index h = in_h = mkcell(RES, "in_h");
    int i = in_i = vp_int("in_i"), j = in_j = vp_int("in_j"), r = in_r = vp_int("in_r");
    __CPROVER_assume(i >= 0 && i < 12 && j >= 0 && j < 12 && i != j);
    VP_EXCLUDE();
    H3Index out[14];
    for (int k = 0; k < 14; k++) out[k] = UINT64_C(0x5a5a5a5a5a5a5a5a);
    H3Error e = H3_EXPORT(getPentagons)(r, out + 1);
    if (r < 0 || r > 15) {
        __CPROVER_assert(e == E_RES_DOMAIN, "getPentagons: resolution outside 0-15 -> E_RES_DOMAIN");
        __CPROVER_assert(out[1 + i] == UINT64_C(0x5a5a5a5a5a5a5a5a), "nothing written on error");
    } else {
        __CPROVER_assert(e == E_SUCCESS, "getPentagons succeeds");
        __CPROVER_assert(spec_valid_cell(out[1 + i]) && spec_is_pentagon(out[1 + i]) && (int)((out[1 + i] >> 52) & 15) == r, "each output is a valid pentagon of that resolution");
        __CPROVER_assert(out[1 + i] != out[1 + j], "the twelve outputs are distinct");
        __CPROVER_assert(out[0] == UINT64_C(0x5a5a5a5a5a5a5a5a) && out[13] == UINT64_C(0x5a5a5a5a5a5a5a5a), "exactly twelve slots written");
        if (r == RES) {
            int found = 0;
            for (int k = 0; k < 12; k++) if (out[1 + k] == h) found = 1;
            VP_WITNESS("pents");
            __CPROVER_assert((H3_EXPORT(isPentagon)(h) != 0) == found, "a valid cell is a pentagon exactly when getPentagons lists it");
        }
    }
#elif defined(RES0)
    H3Index h = in_h = mkcell(0, "in_h");
    int i = in_i = vp_int("in_i");
    __CPROVER_assume(i >= 0 && i < 122);
    VP_EXCLUDE();
    H3Index out[124];
    out[0] = out[123] = UINT64_C(0x5a5a5a5a5a5a5a5a);
    H3Error e = H3_EXPORT(getRes0Cells)(out + 1);
    __CPROVER_assert(e == E_SUCCESS, "getRes0Cells succeeds");
    __CPROVER_assert(spec_valid_cell(out[1 + i]) && ((out[1 + i] >> 52) & 15) == 0, "each output is a valid resolution-0 cell");
    if (i > 0) __CPROVER_assert(out[i] < out[1 + i], "outputs are distinct (strictly increasing)");
    int bc = (int)((h >> 45) & 127);
    VP_WITNESS("res0");
    __CPROVER_assert(out[1 + bc] == h, "every valid resolution-0 cell is listed");
    __CPROVER_assert(out[0] == UINT64_C(0x5a5a5a5a5a5a5a5a) && out[123] == UINT64_C(0x5a5a5a5a5a5a5a5a), "exactly 122 slots written");
#elif defined(FIJK)
    H3Index h = in_h = mkcell(RES, "in_h");
    VP_EXCLUDE();
    FaceIJK f;
    H3Error e = _h3ToFaceIjk(h, &f);
    __CPROVER_assert(e == E_SUCCESS, "_h3ToFaceIjk succeeds on a valid cell");
    __CPROVER_assert(f.face >= 0 && f.face < 20, "face in range");
    __CPROVER_assert(f.coord.i >= 0 && f.coord.j >= 0 && f.coord.k >= 0 && (f.coord.i == 0 || f.coord.j == 0 || f.coord.k == 0), "ijk+ normalised");
    H3Index back = _faceIjkToH3(&f, RES);
    VP_WITNESS("fijk");
    __CPROVER_assert(back == h, "_faceIjkToH3(_h3ToFaceIjk(h)) == h: the lattice address identifies the cell");
#endif
}
