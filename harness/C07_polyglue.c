// C07/C15 glue: the polygon-level predicates of polygon.c (outer loop + holes bookkeeping) with the loop-level
// geometry replaced by recording stubs. Each loop must be paired with ITS bounding box; the results must combine as
// "inside the outer loop and outside every hole" / "crosses any loop".
#include "vp.h"
#include "h3api.h"
#include "polygon.h"
#include "bbox.h"
#define NHOLES 2
int in_inside[4], in_cross[3], in_holefirst[2], in_nv[2], in_nh;
static GeoPolygon poly; static GeoLoop holes[NHOLES]; static LatLng ov[3], hv[NHOLES][3]; static BBox bbs[NHOLES + 1]; static BBox cellBBox; static CellBoundary cb;
static LatLng pt;
static int nbb[NHOLES + 1];
static int loop_id(const GeoLoop *l) { if (l == &poly.geoloop) return 0; for (int i = 0; i < NHOLES; i++) if (l == &holes[i]) return 1 + i; return 99; }
bool pointInsideGeoLoop(const GeoLoop *loop, const BBox *bbox, const LatLng *coord) {
    int k = loop_id(loop);
    if (k == 99) {   // the cell boundary used as a loop: tested against the first vertex of a hole
        __CPROVER_assert(bbox == &cellBBox, "cell boundary loop is paired with the cell's bounding box");
        for (int i = 0; i < NHOLES; i++) if (coord == &holes[i].verts[0]) return in_holefirst[i];
        __CPROVER_assert(0, "boundary-as-loop only tested against a hole's first vertex");
        return 0;
    }
    __CPROVER_assert(bbox == &bbs[k], "every loop is tested with its own bounding box");
    __CPROVER_assert(k <= in_nh, "only existing holes are consulted");
    __CPROVER_assert(coord == &pt || coord == &cb.verts[0], "the queried point is handed on");
    return in_inside[k];
}
bool cellBoundaryCrossesGeoLoop(const GeoLoop *loop, const BBox *loopBBox, const CellBoundary *boundary, const BBox *boundaryBBox) {
    int k = loop_id(loop);
    __CPROVER_assert(k <= NHOLES && k <= in_nh && loopBBox == &bbs[k], "every loop is tested with its own bounding box");
    __CPROVER_assert(boundary == &cb && boundaryBBox == &cellBBox, "the cell boundary and its box are handed on");
    return in_cross[k];
}
void bboxFromGeoLoop(const GeoLoop *loop, BBox *bbox) {
    int k = loop_id(loop);
    __CPROVER_assert(k <= NHOLES && k <= in_nh && bbox == &bbs[k], "box k is computed from loop k");
    nbb[k]++;
}
void harness(void) {
    in_nh = vp_int("in_nh"); __CPROVER_assume(in_nh >= 0 && in_nh <= NHOLES);
    for (int i = 0; i < 3; i++) { in_inside[i] = vp_int_i("in_inside", i) & 1; in_cross[i] = vp_int_i("in_cross", i) & 1; }
    for (int i = 0; i < NHOLES; i++) { in_holefirst[i] = vp_int_i("in_holefirst", i) & 1; in_nv[i] = vp_int_i("in_nv", i); __CPROVER_assume(in_nv[i] == 0 || in_nv[i] == 3); holes[i].numVerts = in_nv[i]; holes[i].verts = hv[i]; }
    VP_EXCLUDE();
    poly.geoloop.numVerts = 3; poly.geoloop.verts = ov; poly.numHoles = in_nh; poly.holes = holes;
    cb.numVerts = 6;
    // bounding boxes
    bboxesFromGeoPolygon(&poly, bbs);
    for (int k = 0; k < 3; k++) __CPROVER_assert(nbb[k] == (k <= in_nh ? 1 : 0), "one bounding box per loop (outer loop first, then hole i at index i+1)");
    // point in polygon
    int inHole = 0;
    for (int i = 0; i < NHOLES; i++) if (i < in_nh && in_inside[1 + i]) inHole = 1;
    bool pip = pointInsidePolygon(&poly, bbs, &pt);
    __CPROVER_assert(pip == (in_inside[0] && !inHole), "point in polygon = inside the outer loop and outside every hole");
    // boundary crosses polygon
    int anyCross = in_cross[0];
    for (int i = 0; i < NHOLES; i++) if (i < in_nh && in_cross[1 + i]) anyCross = 1;
    bool cr = cellBoundaryCrossesPolygon(&poly, bbs, &cb, &cellBBox);
    __CPROVER_assert(cr == (anyCross != 0), "boundary crosses polygon = crosses the outer loop or any hole");
    // boundary inside polygon
    int ok = (in_inside[0] && !inHole) && !in_cross[0];
    for (int i = 0; i < NHOLES; i++) if (i < in_nh && in_nv[i] > 0 && (in_holefirst[i] || in_cross[1 + i])) ok = 0;
    bool ins = cellBoundaryInsidePolygon(&poly, bbs, &cb, &cellBBox);
    if (in_nh == 2) VP_WITNESS("two holes");
    __CPROVER_assert(ins == (ok != 0), "boundary inside polygon = first vertex in polygon, no crossing of any loop, no hole inside the cell");
}
