// C02: latLngToCell. Modes ARGS (argument validation + glue around the stubbed geometry), HEX2D (planar rounding
// contains the point, on a 2^-G grid window)
#include "vp.h"
#include "h3api.h"
#include "h3Index.h"
#include "faceijk.h"
#include "coordijk.h"
#include "constants.h"
#include <math.h>
#if defined(ARGS)
#ifndef VP_NATIVE
int __builtin_isfinite(double d) { return __CPROVER_isfinited(d); }   // CBMC 6.11 has no body for the builtin
#endif
double in_lat, in_lng; int in_res; uint64_t in_idx; int in_face;
static int ngeo, nidx;
void _geoToFaceIjk(const LatLng *g, int res, FaceIJK *h) {
    ngeo++;
    __CPROVER_assert(res >= 0 && res <= 15 && __CPROVER_isfinited(g->lat) && __CPROVER_isfinited(g->lng), "geometry is only reached with a valid resolution and finite coordinates");
    h->face = in_face; h->coord.i = 1; h->coord.j = 0; h->coord.k = 0;
}
H3Index _faceIjkToH3(const FaceIJK *f, int res) { nidx++; __CPROVER_assert(f->face == in_face && res == in_res, "lattice address and resolution are handed on unchanged"); return in_idx; }
void harness(void) {
    LatLng g; g.lat = in_lat = vp_double("in_lat"); g.lng = in_lng = vp_double("in_lng");
    int res = in_res = vp_int("in_res"); in_idx = vp_u64("in_idx"); in_face = vp_int("in_face");
    VP_EXCLUDE();
    H3Index out = UINT64_C(0x5a5a5a5a5a5a5a5a);
    H3Error e = H3_EXPORT(latLngToCell)(&g, res, &out);
    int finite = __CPROVER_isfinited(g.lat) && __CPROVER_isfinited(g.lng);
    if (res < 0 || res > 15) {
        __CPROVER_assert(e == E_RES_DOMAIN, "resolution outside 0-15 -> E_RES_DOMAIN");
        __CPROVER_assert(out == UINT64_C(0x5a5a5a5a5a5a5a5a) && ngeo == 0, "no index written");
    } else if (!finite) {
        VP_WITNESS("non-finite");
        __CPROVER_assert(e == E_LATLNG_DOMAIN, "non-finite coordinate -> E_LATLNG_DOMAIN");
        __CPROVER_assert(out == UINT64_C(0x5a5a5a5a5a5a5a5a) && ngeo == 0, "no index written");
    } else {
        VP_WITNESS("finite");
        __CPROVER_assert(ngeo == 1 && nidx == 1, "one projection, one index construction");
        if (in_idx != 0) __CPROVER_assert(e == E_SUCCESS && out == in_idx, "the index built from the lattice address is returned");
        else __CPROVER_assert(e == E_FAILED, "a null index is reported as failure");
    }
}
#elif defined(HEX2D)
int in_kx, in_ky;
void harness(void) {
    int kx = in_kx = vp_int("in_kx"), ky = in_ky = vp_int("in_ky");
    __CPROVER_assume(kx >= -(WR << G) && kx <= (WR << G) && ky >= -(WR << G) && ky <= (WR << G));
    VP_EXCLUDE();
    Vec2d v;
    v.x = (double)OX + kx * (1.0 / (1 << G));
    v.y = (double)OY + ky * (1.0 / (1 << G));
    CoordIJK h;
    _hex2dToCoordIJK(&v, &h);
    __CPROVER_assert(h.i >= 0 && h.j >= 0 && h.k >= 0 && (h.i == 0 || h.j == 0 || h.k == 0), "result is ijk+ normalised");
    Vec2d c;
    _ijkToHex2d(&h, &c);
    double dx = v.x - c.x, dy = v.y - c.y;
    double p0 = dx, p1 = 0.5 * dx + M_SQRT3_2 * dy, p2 = -0.5 * dx + M_SQRT3_2 * dy;
    double lim = 0.5 + 1e-6;
    VP_WITNESS("hex2d");
    __CPROVER_assert(p0 <= lim && p0 >= -lim, "point within the chosen hexagon: axis 0");
    __CPROVER_assert(p1 <= lim && p1 >= -lim, "point within the chosen hexagon: axis 1");
    __CPROVER_assert(p2 <= lim && p2 >= -lim, "point within the chosen hexagon: axis 2");
    // inverse direction (C03.H2): the centre of the chosen cell rounds back to it
    CoordIJK back;
    _hex2dToCoordIJK(&c, &back);
    __CPROVER_assert(back.i == h.i && back.j == h.j && back.k == h.k, "the centre of a cell rounds to that cell");
}
#endif
