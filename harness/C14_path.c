// C14 gridPathCells. Modes GLUE (gridDistance / cellToLocalIjk / localIjkToCell stubbed: sizes, write bound, error
// propagation), NEAR (distance 0 and 1 end to end on the real code)
#include "vp.h"
#include "spec.h"
#include "h3Index.h"
#include "baseCells.h"
#include "algos.h"
#include "localij.h"
#include "coordijk.h"
#if defined(GLUE)
uint64_t in_a, in_b; int64_t in_dist; int in_derr, in_failat, in_ferr; uint64_t s_cell[5];
static int ncalls;
H3Error H3_EXPORT(gridDistance)(H3Index o, H3Index h, int64_t *out) { __CPROVER_assert(o == in_a && h == in_b, "distance of (start, end)"); if (in_derr) return (H3Error)in_derr; *out = in_dist; return E_SUCCESS; }
H3Error cellToLocalIjk(H3Index origin, H3Index h3, CoordIJK *out) { __CPROVER_assert(origin == in_a && (h3 == in_a || h3 == in_b), "local coordinates relative to the start"); out->i = vp_next_int() & 255; out->j = vp_next_int() & 255; out->k = 0; return E_SUCCESS; }
H3Error localIjkToCell(H3Index origin, const CoordIJK *ijk, H3Index *out) {
    __CPROVER_assert(origin == in_a && ncalls <= in_dist, "at most distance+1 cells are produced");
    int n = ncalls++;
    if (n == in_failat) return (H3Error)in_ferr;
    *out = s_cell[n]; return E_SUCCESS;
}
void harness(void) {
    in_a = vp_u64("in_a"); in_b = vp_u64("in_b"); in_dist = vp_i64("in_dist"); in_derr = vp_int("in_derr"); in_failat = vp_int("in_failat"); in_ferr = vp_int("in_ferr");
    __CPROVER_assume(in_dist >= 0 && in_dist <= 3 && in_derr >= 0 && in_derr <= 15 && in_ferr >= 1 && in_ferr <= 15 && in_failat >= 0 && in_failat <= 5);
    for (int i = 0; i < 5; i++) s_cell[i] = vp_u64_i("s_cell", i);
    VP_EXCLUDE();
    int64_t sz = -7;
    H3Error es = H3_EXPORT(gridPathCellsSize)(in_a, in_b, &sz);
    if (in_derr) __CPROVER_assert(es == (H3Error)in_derr && sz == -7, "gridPathCellsSize fails exactly as gridDistance does, no size written");
    else __CPROVER_assert(es == E_SUCCESS && sz == in_dist + 1, "gridPathCellsSize == gridDistance + 1");
    H3Index out[6];
    for (int i = 0; i < 6; i++) out[i] = UINT64_C(0x5a5a5a5a5a5a5a5a);
    H3Error e = H3_EXPORT(gridPathCells)(in_a, in_b, out);
    if (in_derr) {
        VP_WITNESS("distance error");
        __CPROVER_assert(e == (H3Error)in_derr && ncalls == 0, "gridPathCells returns gridDistance's error");
        for (int i = 0; i < 6; i++) __CPROVER_assert(out[i] == UINT64_C(0x5a5a5a5a5a5a5a5a), "nothing written when the size is undefined");
    } else {
        for (int i = 0; i < 6; i++) if (i > in_dist) __CPROVER_assert(out[i] == UINT64_C(0x5a5a5a5a5a5a5a5a), "nothing written beyond the announced size");
        if (in_failat <= in_dist) {
            VP_WITNESS("step error");
            __CPROVER_assert(e == (H3Error)in_ferr, "an error while mapping step n is returned");
            for (int i = 0; i < 5; i++) if (i < in_failat) __CPROVER_assert(out[i] == s_cell[i], "cells before the failing step are in place");
        } else {
            VP_WITNESS("success");
            __CPROVER_assert(e == E_SUCCESS && ncalls == in_dist + 1, "exactly distance+1 cells are produced");
            for (int i = 0; i < 4; i++) if (i <= in_dist) __CPROVER_assert(out[i] == s_cell[i], "cells are written in path order");
        }
    }
}
#elif defined(NEAR)
#include "mkcell.h"
#define UP7_CHECKED
#include "up7model.h"
H3Index in_a, in_b; int in_d;
void harness(void) {
    H3Index a = in_a = mkcell(RES, "in_a");
    int d = in_d = vp_int("in_d");
    __CPROVER_assume(d >= 0 && d <= 6);
    VP_EXCLUDE();
    H3Index b = a;
    if (d > 0) { int rot = 0; H3Error e0 = h3NeighborRotations(a, (Direction)d, &rot, &b); __CPROVER_assume(e0 == E_SUCCESS); }
    in_b = b;
    int64_t sz = -1;
    H3Error es = H3_EXPORT(gridPathCellsSize)(a, b, &sz);
    __CPROVER_assert(es == E_SUCCESS && sz == (d > 0 ? 2 : 1), "size is 1 for a=b and 2 for neighbouring cells");
    H3Index out[3] = {UINT64_C(0x5a5a5a5a5a5a5a5a), UINT64_C(0x5a5a5a5a5a5a5a5a), UINT64_C(0x5a5a5a5a5a5a5a5a)};
    H3Error e = H3_EXPORT(gridPathCells)(a, b, out);
    VP_WITNESS("near");
    __CPROVER_assert(e == E_SUCCESS, "gridPathCells succeeds for a=b and for every pair of neighbouring cells");
    __CPROVER_assert(out[0] == a, "path starts with the start cell");
    if (d > 0) __CPROVER_assert(out[1] == b, "path ends with the end cell");
    __CPROVER_assert(out[d > 0 ? 2 : 1] == UINT64_C(0x5a5a5a5a5a5a5a5a), "nothing written beyond the announced size");
}
#endif
