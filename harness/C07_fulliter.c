// C07/C15 glue: the full polygon iterator expands every compact cell delivered by the compact iterator into exactly its
// children at the target resolution, in order, without duplicates or omissions, and passes the final error through.
// The compact iterator is an arbitrary sequence of NSEQ valid cells of resolution TRES-1 or TRES.
#include "mkcell.h"
#include "spec.h"
#include "h3api.h"
#include "polyfill.h"
#include "iterators.h"
#define NSEQ 2
H3Index in_seq[NSEQ]; int in_len, in_err, in_coarse[NSEQ];
static int pos, destroyed;
static GeoPolygon poly;
static void load(IterCellsPolygonCompact *it) { if (pos < in_len) { it->cell = in_seq[pos]; it->error = E_SUCCESS; } else { it->cell = 0; it->error = (H3Error)in_err; } }
IterCellsPolygonCompact iterInitPolygonCompact(const GeoPolygon *polygon, int res, uint32_t flags) {
    IterCellsPolygonCompact it = {0};
    __CPROVER_assert(polygon == &poly && res == TRES && flags == 1, "arguments handed to the compact iterator unchanged");
    it._res = res; it._flags = flags; it._polygon = polygon;
    pos = 0; load(&it); return it;
}
void iterStepPolygonCompact(IterCellsPolygonCompact *it) { if (it->cell == 0) return; pos++; load(it); }
void iterDestroyPolygonCompact(IterCellsPolygonCompact *it) { destroyed++; it->cell = 0; it->error = E_SUCCESS; }
void harness(void) {
    in_len = vp_int("in_len"); in_err = vp_int("in_err");
    __CPROVER_assume(in_len >= 0 && in_len <= NSEQ && in_err >= 0 && in_err <= 15);
    for (int i = 0; i < NSEQ; i++) {
        in_coarse[i] = vp_int_i("in_coarse", i) & 1;
        H3Index a = mkcell(TRES - 1, "in_seqA"), b = mkcell(TRES, "in_seqB");   // fresh nondets per call under CBMC
        in_seq[i] = in_coarse[i] ? a : b;
    }
    VP_EXCLUDE();
    // reference: concatenation of the children lists (cellToChildren is C04's subject)
    H3Index want[15]; int nw = 0;
    for (int i = 0; i < NSEQ; i++) if (i < in_len) {
        H3Index ch[7] = {0, 0, 0, 0, 0, 0, 0};
        int64_t n = 0; H3_EXPORT(cellToChildrenSize)(in_seq[i], TRES, &n);
        H3_EXPORT(cellToChildren)(in_seq[i], TRES, ch);
        for (int k = 0; k < 7; k++) if (k < n) want[nw++] = ch[k];
    }
    IterCellsPolygon it = iterInitPolygon(&poly, TRES, 1);
    int n = 0;
    for (int i = 0; i < 15; i++) {
        if (!it.cell) break;
        __CPROVER_assert(n < nw && it.cell == want[n], "cells come out as the children of each compact cell, in order, none skipped or repeated");
        n++;
        iterStepPolygon(&it);
    }
    VP_WITNESS("full iterator");
    __CPROVER_assert(it.cell == 0 && n == nw, "iteration ends exactly after the last child of the last compact cell");
    __CPROVER_assert(it.error == (H3Error)in_err, "the compact iterator's final status is passed through");
}
