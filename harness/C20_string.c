// C20: h3ToString / stringToH3 on all 2^64 values; S-FMT model of the libc formatting contract
#include "vp.h"
#include "h3api.h"
#include "fmt.h"
uint64_t in_h; uint64_t in_sz; uint64_t in_s[8];
void harness(void) {
#if defined(SMALL)
    H3Index h = in_h = vp_u64("in_h");
    size_t sz = in_sz = vp_u64("in_sz");
    __CPROVER_assume(sz < 17);
    VP_EXCLUDE();
    char buf[17];
    for (int i = 0; i < 17; i++) buf[i] = 0x5a;
    H3Error e = H3_EXPORT(h3ToString)(h, buf, sz);
    VP_WITNESS("small buffer");
    __CPROVER_assert(e == E_MEMORY_BOUNDS, "buffer smaller than 17 bytes is rejected with E_MEMORY_BOUNDS");
    for (int i = 0; i < 17; i++) __CPROVER_assert(buf[i] == 0x5a, "rejected call leaves the buffer untouched");
#elif defined(SZ)
    H3Index h = in_h = vp_u64("in_h");
    VP_EXCLUDE();
    char buf[SZ];
    for (int i = 0; i < SZ; i++) buf[i] = 0x5a;
    H3Error e = H3_EXPORT(h3ToString)(h, buf, SZ);
    __CPROVER_assert(e == E_SUCCESS, "buffer of at least 17 bytes succeeds");
    int n = 0;
    while (n < 17 && buf[n]) n++;
    __CPROVER_assert(n >= 1 && n <= 16, "1..16 digits and the terminator within 17 bytes");
    uint64_t v = 0;
    for (int i = 0; i < 16; i++)
        if (i < n) {
            char c = buf[i];
            __CPROVER_assert((c >= '0' && c <= '9') || (c >= 'a' && c <= 'f'), "lowercase hexadecimal digit");
            v = (v << 4) | (uint64_t)(c <= '9' ? c - '0' : c - 'a' + 10);
        }
    __CPROVER_assert(v == h, "digits denote the value");
    __CPROVER_assert(n == 1 || buf[0] != '0', "unpadded");
    for (int i = 17; i < SZ; i++) __CPROVER_assert(buf[i] == 0x5a, "nothing written beyond 17 bytes");
    H3Index back = 0;
    H3Error e2 = H3_EXPORT(stringToH3)(buf, &back);
    VP_WITNESS("round trip site");
    __CPROVER_assert(e2 == E_SUCCESS && back == h, "stringToH3(h3ToString(h)) == h");
#elif defined(PARSE)
    // arbitrary strings of up to 6 bytes
    char s[7];
    for (int i = 0; i < 6; i++) { in_s[i] = vp_u64_i("in_s", i) & 0xff; s[i] = (char)in_s[i]; }
    s[6] = 0;
    VP_EXCLUDE();
    H3Index out = UINT64_C(0x5a5a5a5a5a5a5a5a);
    H3Error e = H3_EXPORT(stringToH3)(s, &out);
    char c = s[0];
    int ishex = (c >= '0' && c <= '9') || (c >= 'a' && c <= 'f') || (c >= 'A' && c <= 'F');
    int wsign = (c == ' ' || c == '\t' || c == '\n' || c == '\v' || c == '\f' || c == '\r' || c == '+' || c == '-');
    if (!ishex && !wsign) {
        VP_WITNESS("non-number text");
        __CPROVER_assert(e != E_SUCCESS, "text that does not start with a hexadecimal number is an error");
        __CPROVER_assert(out == UINT64_C(0x5a5a5a5a5a5a5a5a), "no result written on error");
    }
    if (ishex) {
        uint64_t v = 0; int i = 0;
        if (s[0] == '0' && (s[1] == 'x' || s[1] == 'X') && vpf_hexval(s[2]) >= 0) i = 2;
        while (i < 6 && vpf_hexval(s[i]) >= 0) { v = (v << 4) | (uint64_t)vpf_hexval(s[i]); i++; }
        __CPROVER_assert(e == E_SUCCESS && out == v, "leading hexadecimal number is parsed");
    }
    __CPROVER_assert(e == E_SUCCESS || out == UINT64_C(0x5a5a5a5a5a5a5a5a), "error implies no result");
#endif
}
