#!/bin/bash
# usage: mutest.sh <patch.diff> <property-id> [run_check args...]
# Applies the patch to a scratch worktree of /repo (outside /repo and /verif), runs the check against it with
# VP_REPO pointing there (the registered commands always use /repo itself), prints the verdict lines, removes the worktree.
set -u
patch=$(readlink -f "$1"); pid=$2; shift 2
wt=$(mktemp -d /tmp/vpmut.XXXXXX)
git -C /repo worktree add -q --detach "$wt" HEAD || exit 9
git -C "$wt" apply "$patch" || { echo "PATCH DOES NOT APPLY"; git -C /repo worktree remove --force "$wt"; exit 9; }
VP_REPO="$wt" python3 /verif/run_check.py "$pid" --no-evidence "$@" 2>&1 | grep -E "VIOLATION|BROKEN|UNDECIDED|SUMMARY|violation|unconfirmed| broken"
rc=${PIPESTATUS[0]}
git -C /repo worktree remove --force "$wt"
echo "mutest rc=$rc"
exit $rc
