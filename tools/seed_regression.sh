#!/bin/bash
# re-runs every seeded change that is recorded as caught against the job that catches it; expects a VIOLATION (mutest rc=1)
cd /verif
while read seed pid tier only; do
  [ -z "$seed" ] && continue
  d=$(ls -d seeded/${seed}_* 2>/dev/null | head -1)
  out=$(tools/mutest.sh $d/patch.diff $pid --tier $tier --only "$only" 2>&1 | grep -E "mutest rc|VIOLATION" | tr '\n' ' ')
  echo "$seed $pid $only :: $out"
done <<'T'
S01 C04 quick itinit_r1[1-5]$
S02 C05 quick k1_gridDisksUnsafe_r0$
S03 C13 quick fwdpent_0_12$
S04 C10 quick sum_edge$
S05 C17 quick polylegacy_h0$
S06 C09 quick ijrt_r1$
S07 C11 quick glue_isValidVertex$
S09 C01 quick valid_allwords$
S10 C03 quick valid_predicate_allwords$
S11 C07 quick polyglue$
S12 C19 quick glue_faces$
S13 C14 quick chart_ijrt_r1$
S14 C19 quick glue_faces$
S15 C20 quick sz17$
S16 C18 quick symscan$
S19 C15 quick polyglue$
S22 C04 quick size_r[03]$
S23 C10 quick valid_allwords$
S24 C13 quick fwd_0_1$
S25 C11 quick glue_vertexToLatLng$
S26 C12 quick localIjToCell_r0$
S27 C17 quick diskany_r0$
S28 C01 quick closure_childpos_0_2$
S30 C19 quick glue_faces$
S31 C18 quick symscan$
S34 C20 quick sz17$|parse$
S35 C15 quick cross_reject_sound_g3$
S37 C16 quick normalize_2loops$
S39 C13 quick fwd_1[345]_15$
S40 C04 quick parent_r0$
S42 C05 quick nbr_symhex_r15$
S43 C02 quick args_glue$
S45 C10 quick origins_r(0|15)$
S46 C11 quick glue_cellToVertex$
S47 C12 quick cellToLocalIj_r1$
S48 C19 quick glue_faces$
S49 C15 thorough cross_reject_sound_tri_g2$
S50 C01 quick valid_allwords$
S51 C03 quick valid_predicate_allwords$
S52 C18 quick symscan
S53 C16 quick normalize_3loops$
S54 C20 quick small$
S55 C13 quick err_9$
S56 C12 quick getIcosahedronFaces_glue$
S57 C05 quick k1_gridDisksUnsafe_r0$
S58 C10 quick sum_edge$
S59 C12 quick gridDiskDistancesSafe_r0_k1$
S61 C17 quick polyexp_h0$
S62 C04 quick itinit_r14$
S63 C11 quick glue_isValidVertex$
S64 C10 quick anydest_r1$
S65 C07 quick flags$
T
