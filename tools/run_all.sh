#!/bin/bash
# runs every registered check of one tier sequentially in /verif against /repo, writing the evidence files
tier=${1:-quick}; shift
props=${@:-C01 C02 C03 C04 C05 C06 C07 C08 C09 C10 C11 C12 C13 C14 C15 C16 C17 C18 C19 C20}
cd /verif
for p in $props; do
  s=$(date +%s)
  python3 run_check.py $p --tier $tier > /tmp/vp_runall_$p.log 2>&1; rc=$?
  e=$(date +%s)
  echo "$p rc=$rc $((e-s))s $(grep SUMMARY /tmp/vp_runall_$p.log)"
  grep -E "VIOLATION|BROKEN|UNDECIDED|KNOWN-FINDING" /tmp/vp_runall_$p.log | head -5
done
