#!/bin/bash
# Re-runs the behaviour-preserving refactorings (seeded/_equivalent_refactorings) against the checks that look at the
# code they touch; every run must stay silent (rc=0). Scratch worktrees only; /repo is never modified.
cd /verif
fail=0
while read -r patch prop only; do
  [ -z "$patch" ] && continue
  out=$(tools/mutest.sh seeded/_equivalent_refactorings/$patch.patch $prop --tier quick ${only:+--only "$only"} 2>&1); rc=$?
  echo "$patch $prop ${only:-all} rc=$rc $(echo "$out" | grep SUMMARY)"
  [ $rc -ne 0 ] && { fail=1; echo "$out"; }
done <<'L'
E1_isValidCell_loop C01
E1_isValidCell_loop C03 valid_predicate|pents_r15$|count
E2_cellToParent_mask C04
E3_h3ToString_snprintf C20
E5_cellToVertex_no_left_shortcut C11 glue
E10_childrenSize_table C04 size
E10_childrenSize_table C13 err_
E11_validateFlags C07 flags|empty
E11_validateFlags C15
E12_algos_neighbor_loops C05
E12_algos_neighbor_loops C10
E13_edge_vertex_helpers C10
E13_edge_vertex_helpers C11
E14_h3Index_closed_forms C13
E14_h3Index_closed_forms C04
E14_h3Index_closed_forms C01
E15_coordijk_localij C09
E15_coordijk_localij C14
E15_coordijk_localij C19
E15_coordijk_localij C03
E16_linkedGeo_vertexGraph C16
E17_compact_iter_bbox C06
E17_compact_iter_bbox C17
E17_compact_iter_bbox C07
E17_compact_iter_bbox C18
E18_empty_polygon_shortcircuit_at_init C17 polyexp_h
E18_empty_polygon_shortcircuit_at_init C07 empty|flags|itergl|polyglue
L
exit $fail
