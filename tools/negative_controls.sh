#!/bin/bash
# Re-runs the behaviour-preserving refactorings (seeded/_equivalent_refactorings) against the checks that look at the
# code they touch; every run must stay silent (rc=0). Scratch worktrees only; /repo is never modified.
cd /verif
fail=0
while read -r patch prop only; do
  [ -z "$patch" ] && continue
  out=$(tools/mutest.sh seeded/_equivalent_refactorings/$patch.patch $prop --tier quick ${only:+--only "$only"} 2>&1); rc=$?
  echo "$patch $prop ${only:-all} rc=$rc $(echo "$out" | grep SUMMARY)"
  [ $rc -ne 0 ] && { fail=1; echo "$out"; }
done <<'L'
E1_isValidCell_loop C01
E1_isValidCell_loop C03 valid_predicate|pents_r15$|count
E2_cellToParent_mask C04
E3_h3ToString_snprintf C20
E5_cellToVertex_no_left_shortcut C11 glue
E10_childrenSize_table C04 size
E10_childrenSize_table C13 err_
E11_validateFlags C07 flags|empty
E11_validateFlags C15
L
exit $fail
