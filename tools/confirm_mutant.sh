#!/bin/bash
# usage: confirm_mutant.sh <patch> <demo.c> [extra gcc args / "SRC" to compile the library sources with -DH3_ALLOC_PREFIX=demo_]
# Confirms in a scratch worktree (outside /repo and /verif): patch applies, library builds, the pinned test suite passes,
# the demo exits 1 with the patch and 0 without it. Removes the worktree afterwards.
patch=$(readlink -f "$1"); demo=$(readlink -f "$2"); mode=${3:-LIB}
wt=$(mktemp -d /tmp/vpconf.XXXXXX)
git -C /repo worktree add -q --detach "$wt" HEAD || exit 9
build() { cmake -G Ninja -B "$wt/_build" -S "$wt" -DCMAKE_BUILD_TYPE=RelWithDebInfo >/dev/null 2>&1 && cmake --build "$wt/_build" >/dev/null 2>&1; }
mkdemo() {
  if [ "$mode" = "SRC" ]; then gcc -O1 -w -DH3_PREFIX= -DH3_ALLOC_PREFIX=demo_ -I"$wt/_build/src/h3lib/include" -I"$wt/src/h3lib/include" -o "$wt/demo" "$demo" "$wt"/src/h3lib/lib/*.c -lm
  else gcc -O1 -w -I"$wt/_build/src/h3lib/include" -I"$wt/src/h3lib/include" -o "$wt/demo" "$demo" "$wt/_build/lib/libh3.a" -lm ${EXTRA_LIBS:-}; fi; }
git -C "$wt" apply "$patch" || { echo "CONFIRM: patch does not apply"; git -C /repo worktree remove --force "$wt"; exit 9; }
build || { echo "CONFIRM: build with patch FAILED"; git -C /repo worktree remove --force "$wt"; exit 8; }
tests=$(ctest --test-dir "$wt/_build" -j8 --timeout 900 2>&1 | grep -E "tests passed|tests failed" | tail -1)
mkdemo; "$wt/demo" >/dev/null 2>&1; with=$?
git -C "$wt" apply -R "$patch"; build; mkdemo; "$wt/demo" >/dev/null 2>&1; without=$?
git -C /repo worktree remove --force "$wt"
echo "CONFIRM patch=$(basename $patch) tests='$tests' demo_with_patch_exit=$with demo_without_patch_exit=$without"
