#!/usr/bin/env python3
"""Driver for the solver-based checks of uber/h3 (see DESIGN.md).

usage: run_check.py <property-id> [--tier quick|thorough] [--only REGEX] [--keep] [--par N]
       run_check.py --replay <replay.json>

Every run: regenerates h3api.h from /repo, compiles the real library units with
goto-cc, links the harnesses, runs CBMC (SAT), replays counterexamples natively
(gcc + ASan/UBSan against the real sources), writes evidence/<id>.json.
exit 0: every decided query held (undecided ones are listed, never counted);
exit 1: VIOLATION (reproduced natively, not a listed known finding);
exit 2: the machinery itself is broken (compile error, vacuous harness, unconfirmed cex).
"""
import argparse, fcntl, hashlib, json, os, re, shutil, signal, subprocess, sys, threading, time
from concurrent.futures import ThreadPoolExecutor

VERIF = os.path.dirname(os.path.abspath(__file__))
REPO = os.environ.get("VP_REPO", "/repo")
LIB = os.path.join(REPO, "src/h3lib/lib")
INC = os.path.join(REPO, "src/h3lib/include")
HARN = os.path.join(VERIF, "harness")
UNITS = ["algos", "baseCells", "bbox", "coordijk", "directedEdge", "faceijk", "h3Assert",
         "h3Index", "iterators", "latLng", "linkedGeo", "localij", "mathExtensions",
         "polyfill", "polygon", "vec2d", "vec3d", "vertex", "vertexGraph"]
NSLOTS = 16
SLOT_GB = 3
MEMCLASS = {"S": (1, 4), "M": (2, 9), "L": (5, 18), "X": (9, 30)}  # class -> (slots, ulimit GB)
UB_FLAGS = ["--bounds-check", "--pointer-check", "--div-by-zero-check", "--signed-overflow-check",
            "--undefined-shift-check", "--conversion-check"]
# --conversion-check also flags integer->integer narrowing, which is implementation-defined, not undefined: only the
# floating-point -> integer conversions (undefined when out of range) are kept as obligations.
IGNORE_PROP = re.compile(r"arithmetic overflow on (signed|unsigned) (to (signed|unsigned) )?type conversion")

sys.path.insert(0, VERIF)
print_lock = threading.Lock()


def say(*a):
    with print_lock:
        print(*a, flush=True)


def sh(cmd, **kw):
    return subprocess.run(cmd, stdout=subprocess.PIPE, stderr=subprocess.STDOUT, text=True, **kw)


class Broken(Exception):
    pass


# ---------------------------------------------------------------------------------- slots
class Slots:
    """cross-process memory/cpu budget: NSLOTS lock files of SLOT_GB each."""

    def __init__(self):
        self.dir = os.environ.get("VP_SLOTS_DIR", "/tmp/vp_h3_slots")  # created on demand; shared by all concurrent checks
        os.makedirs(self.dir, exist_ok=True)

    def acquire(self, k):
        k = min(k, NSLOTS)
        while True:
            got = []
            for i in range(NSLOTS):
                f = open(os.path.join(self.dir, "slot%d" % i), "w")
                try:
                    fcntl.flock(f, fcntl.LOCK_EX | fcntl.LOCK_NB)
                    got.append(f)
                    if len(got) == k:
                        return got
                except OSError:
                    f.close()
            for f in got:
                f.close()
            time.sleep(0.5 + (os.getpid() % 7) * 0.1)

    def release(self, got):
        for f in got:
            try:
                fcntl.flock(f, fcntl.LOCK_UN)
            finally:
                f.close()


SLOTS = Slots()


# ---------------------------------------------------------------------------------- build
class Build:
    def __init__(self, scratch):
        self.scratch = scratch
        self.gen = os.path.join(scratch, "gen")
        os.makedirs(self.gen, exist_ok=True)
        self.lock = threading.Lock()
        self.cache = {}
        self.gen_h3api()
        self.src_hash = self.hash_sources()

    def gen_h3api(self):
        ver = open(os.path.join(REPO, "VERSION")).read().strip()
        m = re.match(r"(\d+)\.(\d+)\.(\d+)", ver)
        if not m:
            raise Broken("cannot parse VERSION")
        s = open(os.path.join(INC, "h3api.h.in")).read()
        s = s.replace("@H3_VERSION_MAJOR@", m.group(1)).replace("@H3_VERSION_MINOR@", m.group(2)) \
             .replace("@H3_VERSION_PATCH@", m.group(3))
        if "@" in re.sub(r"@(file|brief|param|return|defgroup|\{|\}|see|deprecated)", "", s) and re.search(r"@H3_\w+@", s):
            raise Broken("unsubstituted @VAR@ in h3api.h.in")
        open(os.path.join(self.gen, "h3api.h"), "w").write(s)

    def hash_sources(self):
        h = hashlib.sha256()
        for d in (LIB, INC):
            for fn in sorted(os.listdir(d)):
                h.update(fn.encode())
                h.update(open(os.path.join(d, fn), "rb").read())
        return h.hexdigest()[:16]

    def cflags(self, mode, alloc):
        f = ["-I" + INC, "-I" + self.gen, "-I" + os.path.join(HARN, "common"), "-I" + LIB, "-DH3_PREFIX=", "-DUBER_H3_VERIF"]
        if mode == "ndebug":
            f.append("-DNDEBUG")
        if alloc:
            f.append("-DH3_ALLOC_PREFIX=vp_")
        return f

    def unit(self, name, mode, alloc, extra=(), rmbody=()):
        """goto-cc one library unit (cached per flag set)."""
        key = (name, mode, alloc, tuple(extra), tuple(rmbody))
        with self.lock:
            ent = self.cache.get(key)
            if ent is None:
                ent = self.cache[key] = {"lock": threading.Lock(), "path": None}
        with ent["lock"]:
            if ent["path"]:
                return ent["path"]
            tag = hashlib.md5(repr(key).encode()).hexdigest()[:10]
            out = os.path.join(self.scratch, "objs", "%s.%s.gb" % (name, tag))
            os.makedirs(os.path.dirname(out), exist_ok=True)
            r = sh(["goto-cc", "-c", "-o", out] + self.cflags(mode, alloc) + list(extra) + [os.path.join(LIB, name + ".c")])
            if r.returncode != 0:
                raise Broken("goto-cc failed on %s.c:\n%s" % (name, r.stdout[-2000:]))
            for fn in rmbody:
                out2 = out + ".rm"
                r = sh(["goto-instrument", "--remove-function-body", fn, out, out2])
                if r.returncode != 0 or not os.path.exists(out2):
                    raise Broken("remove-function-body %s failed on %s:\n%s" % (fn, name, r.stdout[-1500:]))
                os.replace(out2, out)
            ent["path"] = out
            return out

    def link(self, job, defs_extra=()):
        j = job
        mode, alloc = j.get("mode", "ndebug"), j.get("alloc", False)
        inc_units = set(j.get("include_units", []))
        rename = j.get("unit_defs", {})      # unit -> [-D...]
        stubs = j.get("stubs", {})           # unit -> [functions whose body is removed]
        only = j.get("units")                # optional explicit unit list
        objs = []
        for u in (only if only is not None else UNITS):
            if u in inc_units:
                continue
            objs.append(self.unit(u, mode, alloc, rename.get(u, ()), stubs.get(u, ())))
        out = os.path.join(self.scratch, "jobs", j["name"] + ("." + hashlib.md5(repr(defs_extra).encode()).hexdigest()[:6] if defs_extra else "") + ".gb")
        os.makedirs(os.path.dirname(out), exist_ok=True)
        cmd = ["goto-cc", "-o", out] + self.cflags(mode, alloc) + ["-DVP_LIB=\"%s\"" % LIB] + list(j.get("defs", [])) + list(defs_extra) + [os.path.join(HARN, j["src"])] + objs
        r = sh(cmd)
        if r.returncode != 0:
            raise Broken("goto-cc link failed for %s:\n%s" % (j["name"], r.stdout[-3000:]))
        return out


# ---------------------------------------------------------------------------------- cbmc
RES_RE = re.compile(r"^\[(?P<id>[^\]]+)\] (?P<loc>.*?): (?P<st>SUCCESS|FAILURE|UNKNOWN|ERROR)$")


def cbmc_cmd(job, gb, trace):
    c = ["cbmc", gb, "--function", job.get("entry", "harness"), "--unwinding-assertions", "--drop-unused-functions",
         "--object-bits", str(job.get("object_bits", 16)), "--unwind", str(job.get("unwind", 2))]
    if job.get("unwindset"):
        c += ["--unwindset", ",".join("%s:%d" % kv for kv in job["unwindset"].items())]
    if job.get("depth"):
        c += ["--depth", str(job["depth"])]

    checks = job.get("checks", "none")
    if checks == "none":
        c += ["--no-standard-checks"]
    elif checks == "ub":
        c += ["--no-standard-checks"] + UB_FLAGS + ["--pointer-primitive-check"] * 0
    elif checks == "ubleak":
        c += ["--no-standard-checks"] + UB_FLAGS + ["--memory-leak-check", "--memory-cleanup-check"] * 0 + ["--memory-leak-check"]
    if not job.get("malloc_may_fail", False):
        c += ["--no-malloc-may-fail"]
    sat = job.get("sat", "cadical")
    if sat == "kissat":
        c += ["--external-sat-solver", "kissat"]
    elif sat != "minisat":
        c += ["--sat-solver", sat]
    c += job.get("cbmc_extra", [])
    if trace:
        c += ["--trace"]
    return c


def parse_cbmc(text):
    res = {"props": [], "failed": [], "verdict": None, "stats": {}, "unwind_fail": [], "nobody": []}
    for line in text.splitlines():
        m = RES_RE.match(line)
        if m:
            if m.group("st") != "SUCCESS" and IGNORE_PROP.search(m.group("loc")):
                res.setdefault("ignored", []).append(m.group("id"))
                continue
            res["props"].append((m.group("id"), m.group("loc"), m.group("st")))
            if m.group("st") in ("UNKNOWN", "ERROR"):
                res.setdefault("unknown", []).append(m.group("id"))   # beyond a failed unwinding assertion: not decided
            if m.group("st") == "FAILURE":
                res["failed"].append((m.group("id"), m.group("loc")))
                if "unwinding assertion" in m.group("loc") or "recursion unwinding" in m.group("loc"):
                    res["unwind_fail"].append(m.group("id"))
        elif line.startswith("VERIFICATION SUCCESSFUL"):
            res["verdict"] = "SUCCESS"
        elif line.startswith("VERIFICATION FAILED"):
            res["verdict"] = "FAILED"
        elif "no body for function" in line or "no body for callee" in line:
            m2 = re.search(r"no body for (?:function|callee) (\S+)", line)
            if m2:
                res["nobody"].append(m2.group(1).strip("'`"))
        else:
            m2 = re.match(r"^(\d+) variables, (\d+) clauses", line)
            if m2:
                res["stats"]["variables"] = max(res["stats"].get("variables", 0), int(m2.group(1)))
                res["stats"]["clauses"] = max(res["stats"].get("clauses", 0), int(m2.group(2)))
            m2 = re.match(r"^Runtime (Solver|decision procedure|Symex|Postprocess Equation|Convert SSA): ([0-9.e+-]+)s", line)
            if m2:
                k = "t_" + m2.group(1).lower().replace(" ", "_")
                res["stats"][k] = round(res["stats"].get(k, 0.0) + float(m2.group(2)), 3)
            m2 = re.match(r"^Generated (\d+) VCC\(s\), (\d+) remaining", line)
            if m2:
                res["stats"]["vccs"] = int(m2.group(1))
                res["stats"]["vccs_remaining"] = int(m2.group(2))
    return res


TRACE_RE = re.compile(r"^  (?P<n>(?:in|s)_\w+)(?:\[(?P<i>\d+)l?\])?(?:\.(?P<fld>\w+))?=(?P<v>.+?)(?: \((?P<bits>[01 ]+)\))?$")


def parse_trace(text, want=None):
    """inputs (globals in_* / s_*) of the counterexample trace of property `want` (default: the first trace)."""
    vals = {}
    started = False
    nstream = 0
    for line in text.splitlines():
        if line.startswith("Trace for "):
            if started:
                break
            if want is None or line.strip() == "Trace for %s:" % want:
                started = True
            continue
        if not started:
            continue
        ms = re.match(r"^  vp_stream_value=.*\(([01 ]+)\)$", line)
        if ms:
            vals[("s_stream", nstream)] = int(ms.group(1).replace(" ", ""), 2)
            nstream += 1
            continue
        m = TRACE_RE.match(line)
        if not m or m.group("fld"):
            continue
        bits = m.group("bits")
        if bits:
            b = bits.replace(" ", "")
            if len(b) > 64:
                continue
            v = int(b, 2)
        else:
            t = m.group("v")
            if t in ("TRUE", "FALSE"):
                v = 1 if t == "TRUE" else 0
            else:
                continue
        idx = int(m.group("i")) if m.group("i") is not None else -1
        vals[(m.group("n"), idx)] = v
    return vals


LIVE = set()


def _kill_all(*_):
    for pg in list(LIVE):
        try:
            os.killpg(pg, signal.SIGKILL)
        except OSError:
            pass
    if _:
        os._exit(143)


def run_limited(cmd, timeout, mem_gb, log, env=None):
    def pre():
        os.setsid()
        import resource
        lim = int(mem_gb * (1 << 30))
        resource.setrlimit(resource.RLIMIT_AS, (lim, lim))
    t0 = time.time()
    with open(log, "w") as lf:
        p = subprocess.Popen(["/usr/bin/time", "-f", "VP_MAXRSS_KB=%M"] + cmd, stdout=lf, stderr=subprocess.STDOUT, preexec_fn=pre, env=env)
        LIVE.add(p.pid)
        try:
            rc = p.wait(timeout=timeout)
            to = False
        except subprocess.TimeoutExpired:
            to = True
            try:
                os.killpg(p.pid, signal.SIGKILL)
            except ProcessLookupError:
                pass
            rc = p.wait()
        LIVE.discard(p.pid)
    text = open(log, errors="replace").read()
    m = re.search(r"VP_MAXRSS_KB=(\d+)", text)
    return rc, to, time.time() - t0, int(m.group(1)) if m else 0, text


# ---------------------------------------------------------------------------------- replay
def native_replay(build, job, vals, outdir, tag):
    """compile the same harness natively against the real sources and run it on the cex inputs."""
    os.makedirs(outdir, exist_ok=True)
    rf = os.path.join(outdir, tag + ".inputs")
    with open(rf, "w") as f:
        for (n, i), v in sorted(vals.items()):
            f.write("%s %d %x\n" % (n, i, v))
    exe = os.path.join(outdir, tag + ".exe")
    mode, alloc = job.get("mode", "ndebug"), job.get("alloc", False)
    flags = ["-O0", "-g", "-fsanitize=address,undefined", "-fno-sanitize-recover=all", "-fno-inline", "-w", "-DVP_NATIVE"] + build.cflags(mode, alloc) + ["-DVP_LIB=\"%s\"" % LIB]
    inc_units = set(job.get("include_units", []))
    objs = []
    stubs = job.get("stubs", {})
    rename = job.get("unit_defs", {})
    units = job.get("units") if job.get("units") is not None else UNITS
    for u in units:
        if u in inc_units:
            continue
        o = os.path.join(outdir, "%s.%s.o" % (tag, u))
        # -D renames of the L-UP7 kind are a CBMC-side device only; natively the real functions are used
        r = sh(["gcc", "-c", "-o", o] + flags + [os.path.join(LIB, u + ".c")])
        if r.returncode != 0:
            return "error", "native compile of %s failed: %s" % (u, r.stdout[-800:]), rf
        for fn in stubs.get(u, ()):
            sh(["objcopy", "--weaken-symbol=" + fn, o])
        objs.append(o)
    r = sh(["gcc", "-o", exe] + flags + list(job.get("defs", [])) + [os.path.join(HARN, job["src"]), os.path.join(VERIF, "replay/native.c")] + objs + ["-lm"])
    if r.returncode != 0:
        return "error", "native link failed: %s" % r.stdout[-1500:], rf
    env = dict(os.environ, VP_REPLAY_FILE=rf, ASAN_OPTIONS="exitcode=42:detect_leaks=1:allocator_may_return_null=1", UBSAN_OPTIONS="halt_on_error=1:exitcode=42:print_stacktrace=1")
    try:
        p = subprocess.run([exe], stdout=subprocess.PIPE, stderr=subprocess.STDOUT, text=True, env=env, timeout=300)
        out, rc = p.stdout, p.returncode
    except subprocess.TimeoutExpired:
        return "error", "native replay timed out", rf
    for o in objs + [exe]:
        try:
            os.remove(o)
        except OSError:
            pass
    if rc == 1 and "REPLAY-ASSERT-FAIL" in out:
        return "reproduced", out[-1500:], rf
    if "REPLAY-ASSUME-FAIL" in out:
        return "not_reproduced", out[-1500:], rf
    if rc != 0:
        return "reproduced", "sanitizer/abort rc=%d\n%s" % (rc, out[-2500:]), rf
    return "not_reproduced", out[-1500:], rf


# ---------------------------------------------------------------------------------- known findings
def load_findings():
    p = os.path.join(VERIF, "known_findings.json")
    if not os.path.exists(p):
        return []
    return json.load(open(p)).get("findings", [])


def finding_matches(f, pid, job, vals):
    if f.get("property") != pid or f.get("status", "open") != "open":
        return False
    if f.get("harness") and not re.fullmatch(f["harness"], job["name"]):
        return False
    for k, v in f.get("match", {}).items():
        if vals.get((k, -1)) != int(v, 0):
            return False
    return True


def exclusion_expr(fs):
    parts = []
    for f in fs:
        conj = " && ".join("%s == UINT64_C(%s)" % (k, v) for k, v in f["match"].items())
        parts.append("!(%s)" % conj)
    return " && ".join(parts) if parts else "1"


# ---------------------------------------------------------------------------------- C18 symbol scan
def run_symscan(build, pid, job, rec):
    """Completeness guard of C18: every static-lifetime, non-const object defined under /repo (read from the goto
    symbol table of the freshly compiled library) must be in the list the solver jobs snapshot, and no goto
    instruction of a library function may assign to it (function-local statics cannot be named by a harness)."""
    t0 = time.time()
    try:
        objs = [build.unit(u, "ndebug", False) for u in UNITS]
    except Broken as e:
        rec.update(status="broken", reason=str(e))
        return rec
    allgb = os.path.join(build.scratch, "symscan_all.gb")
    r = sh(["goto-cc", "-o", allgb] + objs)
    if r.returncode != 0:
        rec.update(status="broken", reason="link for symscan failed: " + r.stdout[-500:])
        return rec
    st = sh(["goto-instrument", "--show-symbol-table", allgb]).stdout
    mutable = {}
    for blk in st.split("\n\n"):
        f = dict((ln.split(":", 1)[0].rstrip(". "), ln.split(":", 1)[1].strip()) for ln in blk.splitlines() if re.match(r"^[A-Z][A-Za-z ]+\.*:", ln))
        flags = f.get("Flags", "")
        loc = f.get("Location", "")
        if "static_lifetime" not in flags or "lvalue" not in flags or REPO not in loc:
            continue
        ty = f.get("Type", "")
        if ty.startswith("const ") or "(" in ty.split("[")[0] and ")" in ty and "*" not in ty.split("(")[0]:
            continue
        mutable[f.get("Symbol", "?")] = {"type": ty, "location": loc.replace("file ", "")}
    known = set(job.get("known_statics", []))
    gf = sh(["goto-instrument", "--show-goto-functions", allgb]).stdout
    writes = []
    cur = None
    for ln in gf.splitlines():
        m = re.match(r"^(\S+) /\* (\S+) \*/$", ln)
        if m:
            cur = m.group(2)
            continue
        m = re.match(r"^\s+(?:// \d+ .*)?$", ln)
        m = re.match(r"^\s+ASSIGN (.+?) := ", ln)
        if m and cur and not cur.startswith("__CPROVER"):
            lhs = m.group(1)
            root = re.match(r"[\(\*&\s]*([A-Za-z_][\w:$]*)", lhs)
            if root and root.group(1) in mutable:
                writes.append({"function": cur, "lhs": lhs, "object": root.group(1)})
    new = sorted(set(mutable) - known)
    rec.update(wall_s=round(time.time() - t0, 2), n_props=len(mutable), stats={"mutable_statics": len(mutable), "writes": len(writes)},
               assertions=["%s : %s @ %s" % (k, v["type"], v["location"]) for k, v in sorted(mutable.items())])
    if writes or new:
        rp = os.path.join(VERIF, "replays", "%s-symscan-%s.json" % (pid, hashlib.md5(repr((writes, new)).encode()).hexdigest()[:8]))
        json.dump({"property": pid, "job": job, "inputs": {}, "failed": ["library-owned mutable static object(s): written=%s new=%s" % (writes[:5], new)],
                   "writes": writes, "new_mutable_statics": {k: mutable[k] for k in new}, "how": "python3 run_check.py C18 --only symscan (re-runs the scan on /repo's current tree)"}, open(rp, "w"), indent=1)
        rec.update(status="violation", replay_path=rp, failed=["write to / new mutable static: %s %s" % ([w["object"] + " in " + w["function"] for w in writes[:4]], new)], cex_inputs={})
        return rec
    rec.update(status="held")
    return rec


# ---------------------------------------------------------------------------------- one job
def run_native_test(build, job, rec):
    """translator validation helpers (model vs real libc / real function); never the deciding step."""
    exe = os.path.join(build.scratch, "native_" + job["name"])
    t0 = time.time()
    r = sh(["gcc", "-O1", "-w", "-o", exe] + build.cflags("ndebug", False) + list(job.get("defs", [])) + [os.path.join(HARN, job["src"])] + [os.path.join(LIB, u + ".c") for u in job.get("native_units", [])] + ["-lm"])
    if r.returncode != 0:
        rec.update(status="broken", reason="native test compile failed: " + r.stdout[-800:])
        return rec
    p = sh([exe, os.environ.get("VERIF_SEED", "0") or "0"], timeout=600)
    rec.update(wall_s=round(time.time() - t0, 2), status="native_ok" if p.returncode == 0 else "broken", reason=p.stdout.strip()[-400:], n_props=0)
    return rec


def run_job(build, pid, job, tier_caps, findings):
    """returns a record dict; record['status'] in held|violation|known|undecided|broken|witness_ok|witness_vacuous"""
    name = job["name"]
    rec = {"job": name, "harness": job["src"], "defs": job.get("defs", []), "witness": bool(job.get("witness")),
           "core": job.get("core", True), "bound": job.get("bound", ""), "mem_class": job.get("mem", "S")}
    slots, mem_gb = MEMCLASS[job.get("mem", "S")]
    timeout = job.get("timeout", tier_caps)
    if job.get("native_test"):
        return run_native_test(build, job, rec)
    if job.get("symscan"):
        return run_symscan(build, pid, job, rec)
    excluded = []
    known_lines = []
    got = SLOTS.acquire(slots)
    try:
        unwind_retries = 0
        for attempt in range(8):
            defs_extra = []
            if excluded:
                defs_extra.append("-DVP_EXCLUDE_EXPR=(%s)" % exclusion_expr(excluded))
            try:
                gb = build.link(job, tuple(defs_extra))
            except Broken as e:
                rec.update(status="broken", reason=str(e))
                return rec
            log = os.path.join(build.scratch, "logs", "%s.%d.log" % (name, attempt))
            os.makedirs(os.path.dirname(log), exist_ok=True)
            env = dict(os.environ, TMPDIR=os.path.join(build.scratch, "tmp"))
            os.makedirs(env["TMPDIR"], exist_ok=True)
            cmd = cbmc_cmd(job, gb, trace=not job.get("witness"))
            rc, to, wall, rss, text = run_limited(cmd, timeout, mem_gb, log, env)
            pr = parse_cbmc(text)
            rec.update(wall_s=round(wall, 2), peak_rss_kb=rss, rc=rc, stats=pr["stats"], n_props=len(pr["props"]),
                       cmd=" ".join(cmd[2:]))
            if to or rc not in (0, 10):
                why = "timeout %ds" % timeout if to else ("out of memory (cap %d GB)" % mem_gb if ("bad_alloc" in text or "Out of memory" in text or rc in (134, 137, -9, -6)) else "cbmc rc=%d" % rc)
                oom = rss > 0.85 * mem_gb * (1 << 20) or "std::bad_alloc" in text or "Out of memory" in text
                if oom:
                    rec.update(status="undecided", reason="out of memory (cap %d GB, peak %d MB)" % (mem_gb, rss >> 10))
                elif rc == 6 or "PARSING ERROR" in text or "CONVERSION ERROR" in text or "Usage error" in text:
                    rec.update(status="broken", reason="cbmc error rc=%d: %s" % (rc, text[-800:]))
                else:
                    rec.update(status="undecided", reason=why)
                return rec
            # harness sanity: our assertions must be in the result list, no unexpected missing bodies
            mine = [p for p in pr["props"] if "unwinding" not in p[1] and "recursion" not in p[1]]
            allowed_nobody = set(job.get("allow_nobody", []))
            bad_nobody = [n for n in pr["nobody"] if n not in allowed_nobody]
            if bad_nobody:
                rec.update(status="broken", reason="no body for %s" % sorted(set(bad_nobody)))
                return rec
            if not mine:
                rec.update(status="broken", reason="no assertion of the harness reached the result list (vacuous)")
                return rec
            for exp in job.get("expect", []):
                if not any(exp in p[1] for p in pr["props"]):
                    rec.update(status="broken", reason="expected assertion '%s' missing from result list" % exp)
                    return rec
            other_fail = [f for f in pr["failed"] if f[0] not in pr["unwind_fail"]]
            if pr["unwind_fail"] and (job.get("witness") or not other_fail) and unwind_retries < 2:
                # a loop the job table does not know (e.g. after a refactoring of /repo) or a bound that became too small:
                # raise the bound of exactly the loops that failed and decide again; the bound actually used is recorded
                unwind_retries += 1
                job = dict(job, unwindset=dict(job.get("unwindset", {})))
                for pidn in pr["unwind_fail"]:
                    lid = pidn.replace(".unwind.", ".").replace(".recursion", "")
                    cur = job["unwindset"].get(lid, job.get("unwind", 2))
                    job["unwindset"][lid] = max(17, 4 * cur + 2)
                rec["unwind_raised"] = {k: v for k, v in job["unwindset"].items() if k in [x.replace(".unwind.", ".") for x in pr["unwind_fail"]]}
                continue
            if pr["unwind_fail"] and (job.get("witness") or not other_fail):
                rec.update(status="broken" if not job.get("unwind_is_undecided") else "undecided", reason="unwinding assertion failed (bound too small): %s" % pr["unwind_fail"][:4])
                return rec
            if pr["unwind_fail"]:
                # a property fails on an execution that stays inside the bound: that counterexample is real (replayed below);
                # the exceeded bound is reported with it
                rec["unwind_exceeded"] = pr["unwind_fail"][:6]
                pr["failed"] = other_fail
            if job.get("witness"):
                wfail = [p for p in pr["failed"] if "WITNESS" in p[1]]
                want = job.get("witness_expect")
                ok = bool(wfail) and (not want or all(any(w in p[1] for p in wfail) for w in want))
                rec.update(status="witness_ok" if ok else "witness_vacuous",
                           reason="" if ok else "witness assertion(s) not reachable: harness is vacuous")
                return rec
            if pr["verdict"] == "FAILED" and not pr["failed"] and pr.get("ignored"):
                pr["verdict"] = "SUCCESS"     # only implementation-defined integer conversions were flagged
                rc = 0
            if rc == 0 and pr["verdict"] == "SUCCESS":
                rec.update(status="held" if not known_lines else "held_excluding_known", known=known_lines,
                           assertions=sorted(set(p[1].split(" line ")[-1].split(" ", 1)[-1] for p in mine))[:40])
                return rec
            # counterexample
            vals = parse_trace(text, pr["failed"][0][0] if pr["failed"] else None)
            rec["failed"] = ["%s: %s" % f for f in pr["failed"][:6]]
            rec["cex_inputs"] = {("%s[%d]" % k if k[1] >= 0 else k[0]): hex(v) for k, v in sorted(vals.items())}
            tag = "%s-%s-%s" % (pid, name, hashlib.md5(repr(sorted(vals.items())).encode()).hexdigest()[:8])
            rdir = os.path.join(VERIF, "replays")
            st, out, rf = native_replay(build, job, vals, rdir, tag)
            rec["replay"] = {"status": st, "output": out[-1200:]}
            rp = os.path.join(rdir, tag + ".json")
            json.dump({"property": pid, "job": job, "inputs": rec["cex_inputs"], "inputs_file": rf, "failed": rec["failed"],
                       "native": {"status": st, "output": out}, "repo_src_hash": build.src_hash,
                       "how": "python3 run_check.py --replay " + rp}, open(rp, "w"), indent=1)
            rec["replay_path"] = rp
            if st == "reproduced":
                hit = [f for f in findings if finding_matches(f, pid, job, vals)]
                if hit and len(excluded) < 5:
                    for f in hit:
                        known_lines.append("KNOWN-FINDING: property=%s %s" % (pid, f["what"]))
                        excluded.append(f)
                    continue
                rec.update(status="violation")
                return rec
            if job.get("ub_unconfirmed_ok") and st == "not_reproduced":
                rec.update(status="ub_unconfirmed", reason="solver counterexample is pointer-formation/UB that sanitizers do not confirm")
                return rec
            rec.update(status="unconfirmed", reason="counterexample did not reproduce natively (%s): encoding or stub too loose" % st)
            return rec
        rec.update(status="broken", reason="too many known-finding exclusions")
        return rec
    finally:
        SLOTS.release(got)


# ---------------------------------------------------------------------------------- main
def do_replay(path):
    d = json.load(open(path))
    scratch = os.path.join(VERIF, "build", "replay%d" % os.getpid())
    os.makedirs(scratch, exist_ok=True)
    try:
        b = Build(scratch)
        vals = {}
        for k, v in d["inputs"].items():
            m = re.match(r"(\w+)(?:\[(\d+)\])?$", k)
            vals[(m.group(1), int(m.group(2)) if m.group(2) else -1)] = int(v, 16)
        st, out, rf = native_replay(b, d["job"], vals, scratch, "replay")
        print(out)
        print("REPLAY:", st, "property=%s job=%s" % (d["property"], d["job"]["name"]))
        return 1 if st == "reproduced" else 0
    finally:
        shutil.rmtree(scratch, ignore_errors=True)


def main():
    ap = argparse.ArgumentParser()
    ap.add_argument("pid", nargs="?")
    ap.add_argument("--tier", default=os.environ.get("VERIF_TIER", "quick"))
    ap.add_argument("--only")
    ap.add_argument("--keep", action="store_true")
    ap.add_argument("--par", type=int, default=14)
    ap.add_argument("--replay")
    ap.add_argument("--no-evidence", action="store_true")
    ap.add_argument("--list", action="store_true")
    ap.add_argument("--selftest", action="store_true")
    a = ap.parse_args()
    if a.selftest:
        ok = True
        for tool in (["cbmc", "--version"], ["goto-cc", "--version"], ["goto-instrument", "--version"], ["gcc", "--version"], ["objcopy", "--version"]):
            try:
                r = sh(tool)
                print("selftest:", tool[0], r.stdout.splitlines()[0] if r.stdout else r.returncode)
            except OSError as e:
                print("selftest: MISSING", tool[0], e)
                ok = False
        for d in ("evidence", "replays", "build"):
            os.makedirs(os.path.join(VERIF, d), exist_ok=True)
        ok = ok and os.path.isdir(LIB)
        return 0 if ok else 2
    if a.replay:
        sys.exit(do_replay(a.replay))
    import jobs as J
    pid = a.pid
    tier = a.tier if a.tier in ("quick", "thorough") else "quick"
    spec = J.PROPS[pid]
    alljobs = J.jobs_for(pid, tier)
    if a.only:
        alljobs = [j for j in alljobs if re.search(a.only, j["name"])]
    if a.list:
        for j in alljobs:
            print(j["name"], j.get("mem", "S"), j.get("timeout"), j.get("bound", ""))
        return 0
    seed = int(os.environ.get("VERIF_SEED", "0") or 0)
    t0 = time.time()
    scratch = os.path.join(VERIF, "build", "%s-%d" % (pid, os.getpid()))
    os.makedirs(scratch, exist_ok=True)
    cap = 900 if tier == "quick" else 3600
    recs = []
    status = 0
    try:
        try:
            build = Build(scratch)
        except Broken as e:
            say("BROKEN property=%s build: %s" % (pid, e))
            return 2
        findings = load_findings()
        # large jobs first
        order = sorted(alljobs, key=lambda j: -j.get("est", 10))
        with ThreadPoolExecutor(max_workers=a.par) as ex:
            futs = [ex.submit(run_job, build, pid, j, cap, findings) for j in order]
            for f in futs:
                r = f.result()
                recs.append(r)
                say("  [%s] %-40s %-22s %6.1fs %5.0fMB %s" % (pid, r["job"], r["status"], r.get("wall_s", 0), r.get("peak_rss_kb", 0) / 1024, r.get("reason", "")[:300]))
    finally:
        if not a.keep:
            shutil.rmtree(scratch, ignore_errors=True)
    viol = [r for r in recs if r["status"] == "violation"]
    broken = [r for r in recs if r["status"] in ("broken", "witness_vacuous", "unconfirmed")]
    undec = [r for r in recs if r["status"] == "undecided"]
    held = [r for r in recs if r["status"] in ("held", "held_excluding_known")]
    wit = [r for r in recs if r["status"] == "witness_ok"]
    for r in recs:
        for k in r.get("known", []):
            say(k)
    for r in undec:
        say("UNDECIDED property=%s job=%s reason=%s" % (pid, r["job"], r.get("reason")))
    for r in recs:
        if r["status"] == "ub_unconfirmed":
            say("UB-UNCONFIRMED property=%s job=%s %s" % (pid, r["job"], r.get("failed")))
    for r in broken:
        say("BROKEN property=%s job=%s status=%s reason=%s" % (pid, r["job"], r["status"], r.get("reason", "")[:1500]))
    for r in viol:
        say("VIOLATION property=%s replay=%s" % (pid, r["replay_path"]))
        say("  job=%s failed=%s inputs=%s" % (r["job"], r.get("failed"), r.get("cex_inputs")))
    if viol:
        status = 1
    elif broken:
        status = 2
    elif not held:
        say("BROKEN property=%s: no query was decided" % pid)
        status = 2
    wall = time.time() - t0
    if not a.no_evidence and not a.only:
        write_evidence(pid, tier, seed, spec, recs, wall, len(viol), build.src_hash)
    say("SUMMARY property=%s tier=%s held=%d witnesses_ok=%d undecided=%d broken=%d violations=%d wall=%.0fs" % (pid, tier, len(held), len(wit), len(undec), len(broken), len(viol), wall))
    return status


def write_evidence(pid, tier, seed, spec, recs, wall, nviol, src_hash):
    decided = [r for r in recs if r["status"] in ("held", "held_excluding_known", "violation", "witness_ok")]
    nontriv = set()
    for r in decided:
        if r.get("n_props", 0) > 0 and not r["witness"]:
            nontriv.add((r["harness"], tuple(r["defs"])))
    samples = []
    for r in recs:
        s = {k: r.get(k) for k in ("job", "harness", "defs", "status", "bound", "wall_s", "peak_rss_kb", "stats", "n_props", "reason", "cmd", "failed", "cex_inputs", "replay_path", "assertions") if r.get(k) not in (None, "", [])}
        samples.append(s)
    ev = {
        "property_id": pid, "tier": tier, "seed": seed, "level": "model_checking",
        "coverage": {
            "evaluations": len(decided),
            "distinct_nontrivial": len(nontriv),
            "rule": "one evaluation = one CBMC query (harness x case) decided by the SAT solver over all values of its symbolic inputs within the stated bound; distinct = distinct (harness, -D case) pairs; non-trivial = at least one harness assertion in the result list, unwinding assertions passed, not a vacuity witness",
            "samples": samples,
            "functions_encoded": spec.get("functions", []),
            "units": "all 19 src/h3lib/lib/*.c units compiled by goto-cc from /repo's working tree (hash %s); unused functions dropped per query" % src_hash,
            "bounds": spec.get("bounds", {}).get(tier, spec.get("bounds", "")) if isinstance(spec.get("bounds"), dict) else spec.get("bounds", ""),
            "outside_claim": spec.get("outside", ""),
            "solver": "CBMC 6.11.0 bit-precise SAT (CaDiCaL in-process unless a job says kissat/minisat)",
            "solver_time_s": round(sum(r.get("stats", {}).get("t_decision_procedure", 0) for r in recs), 1),
            "queries_discharged": len(decided),
            "undecided": [{"job": r["job"], "reason": r.get("reason")} for r in recs if r["status"] == "undecided"],
            "witness_ok": [r["job"] for r in recs if r["status"] == "witness_ok"],
            "stubs": spec.get("stubs", []),
            "known_findings_reported": sorted(set(k for r in recs for k in r.get("known", []))),
            "exhaustive": False,
        },
        "assumptions": spec.get("assumptions", []),
        "wall_s": round(wall, 1),
        "violations": nviol,
    }
    os.makedirs(os.path.join(VERIF, "evidence"), exist_ok=True)
    tmp = os.path.join(VERIF, "evidence", pid + ".json.tmp")
    json.dump(ev, open(tmp, "w"), indent=1)
    os.replace(tmp, os.path.join(VERIF, "evidence", pid + ".json"))


if __name__ == "__main__":
    import atexit
    atexit.register(_kill_all)
    signal.signal(signal.SIGTERM, _kill_all)
    signal.signal(signal.SIGHUP, _kill_all)
    try:
        rc = main()
    except KeyboardInterrupt:
        _kill_all()
        rc = 130
    sys.exit(rc)
